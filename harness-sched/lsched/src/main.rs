//! E-sched: every interleaving, up to a preemption bound, of the lock acquisitions and atomic
//! accesses inside the table core (Table, Partition, ColumnHandle, Lru) while a flush step, an
//! ingestion, a query snapshot, a compaction swap and an eviction run concurrently.
//!
//! The code under test is /repo's working tree, copied by prepare.py with the `std::sync` imports of
//! four files switched to `shuttle::sync`; shuttle runs the threads as coroutines and asks the
//! scheduler below at every lock / atomic operation which thread goes on. The scheduler enumerates
//! depth first, with replay, every choice sequence with at most `bound` preemptions.
//!
//! usage: lsched run <quick|thorough> [scenario] -> JSON report on stdout
//!        lsched replay <scenario> <c0,c1,...>   -> runs one schedule, prints the violation if any
use std::collections::{BTreeMap, HashMap, HashSet};
use std::sync::atomic::{AtomicUsize, Ordering};
use std::sync::{Arc, Mutex};

use locustdb::verif::{Column, ColumnBuffer, ColumnLoader, DataSource, DiskReadScheduler, InnerLocustDB, InputColumn, Lru, Partition, PartitionID, QueryPerfCounter, RawVal, Table};
use shuttle::scheduler::{Schedule, Scheduler, Task, TaskId};

// ---------------------------------------------------------------------------------------------
// preemption-bounded depth-first scheduler
// ---------------------------------------------------------------------------------------------

#[derive(Clone, Debug)]
struct Frame {
    /// enabled tasks in canonical order: the running task first if it is still enabled, then ascending ids
    options: Vec<usize>,
    chosen: usize,
    preemptions_before: usize,
    current_enabled: bool,
}

#[derive(Default)]
struct Shared {
    stack: Vec<Frame>,
    pos: usize,
    started: bool,
    executions: u64,
    decisions: u64,
    max_depth: usize,
    /// when set: follow exactly these choices (indices into `options`), default policy afterwards
    forced: Option<Vec<usize>>,
    diverged: Option<String>,
    /// stop after this many executions (cap; reported)
    cap: u64,
    capped: bool,
    /// (task, how many decisions in a row it has been chosen while another task was enabled)
    streak: (usize, usize),
    fairness_switches: u64,
    /// executions by length class (decisions): <200, <1000, <5000, >=5000
    length_classes: [u64; 4],
    long_example: Option<Vec<usize>>,
}

/// A thread that spins (retry loop around a flag) would keep the default policy busy forever: after this many
/// consecutive decisions it is treated as yielding, i.e. the others come first and the switch is not a preemption.
const SPIN_LIMIT: usize = 60;

#[derive(Clone)]
struct BoundedDfs {
    bound: usize,
    sh: Arc<Mutex<Shared>>,
}

impl BoundedDfs {
    fn choices(&self) -> Vec<usize> {
        let sh = self.sh.lock().unwrap();
        sh.stack[..sh.pos.min(sh.stack.len())].iter().map(|f| f.chosen).collect()
    }
}

impl Scheduler for BoundedDfs {
    fn new_execution(&mut self) -> Option<Schedule> {
        let mut sh = self.sh.lock().unwrap();
        if sh.forced.is_some() {
            if sh.started {
                return None;
            }
            sh.started = true;
            sh.stack.clear();
            sh.pos = 0;
            sh.streak = (usize::MAX, 0);
            sh.executions += 1;
            return Some(Schedule::new(0));
        }
        if sh.started && sh.forced.is_none() {
            let n = sh.pos;
            let k = if n < 200 { 0 } else if n < 1000 { 1 } else if n < 5000 { 2 } else { 3 };
            sh.length_classes[k] += 1;
            if k == 3 && sh.long_example.is_none() {
                let mut rle: Vec<(usize, usize)> = vec![];
                for f in sh.stack.iter().take(n) {
                    let t = f.options[f.chosen];
                    match rle.last_mut() {
                        Some((lt, m)) if *lt == t => *m += 1,
                        _ => rle.push((t, 1)),
                    }
                }
                sh.long_example = Some(rle.iter().take(60).flat_map(|(t, m)| vec![*t, *m]).collect());
            }
        }
        if sh.diverged.is_some() {
            return None;
        }
        if !sh.started {
            sh.started = true;
        } else {
            // backtrack to the deepest decision with an unexplored alternative within the bound
            loop {
                let Some(f) = sh.stack.last_mut() else {
                    return None;
                };
                let next = f.chosen + 1;
                let cost = f.preemptions_before + if f.current_enabled { 1 } else { 0 };
                if next < f.options.len() && cost <= self.bound {
                    f.chosen = next;
                    break;
                }
                sh.stack.pop();
            }
        }
        if sh.executions >= sh.cap {
            sh.capped = true;
            return None;
        }
        sh.pos = 0;
        sh.streak = (usize::MAX, 0);
        sh.executions += 1;
        Some(Schedule::new(0))
    }

    fn next_task(&mut self, runnable: &[&Task], current: Option<TaskId>, is_yielding: bool) -> Option<TaskId> {
        let mut sh = self.sh.lock().unwrap();
        let mut ids: Vec<usize> = runnable.iter().map(|t| usize::from(t.id())).collect();
        ids.sort();
        let cur = current.map(usize::from);
        let spinning = cur.map(|c| sh.streak.0 == c && sh.streak.1 >= SPIN_LIMIT && ids.len() > 1).unwrap_or(false);
        if spinning {
            sh.fairness_switches += 1;
        }
        let current_enabled = !is_yielding && !spinning && cur.map(|c| ids.contains(&c)).unwrap_or(false);
        let mut options = vec![];
        if current_enabled {
            options.push(cur.unwrap());
        }
        for i in &ids {
            if !((current_enabled || spinning) && Some(*i) == cur) {
                options.push(*i);
            }
        }
        // (a spinning task is not offered at this decision: somebody else has to run before its loop can end)
        let pos = sh.pos;
        if let Some(forced) = sh.forced.clone() {
            let c = forced.get(pos).copied().unwrap_or(0);
            let c = if c >= options.len() {
                sh.diverged = Some(format!("replay: choice {} at step {} but only {} tasks enabled", c, pos, options.len()));
                0
            } else {
                c
            };
            let pre = sh.stack.last().map(|f| f.preemptions_before + if f.current_enabled && f.chosen > 0 { 1 } else { 0 }).unwrap_or(0);
            sh.stack.push(Frame { options: options.clone(), chosen: c, preemptions_before: pre, current_enabled });
            sh.pos += 1;
            sh.streak = if sh.streak.0 == options[c] && ids.len() > 1 { (options[c], sh.streak.1 + 1) } else { (options[c], 0) };
            return Some(TaskId::from(options[c]));
        }
        if pos < sh.stack.len() {
            // replaying the prefix: the same tasks must be enabled, otherwise the harness does not own the nondeterminism
            if sh.stack[pos].options != options {
                // finish this execution on the default policy (stopping inside an execution would unwind tasks that hold locks) and stop afterwards
                if sh.diverged.is_none() {
                    let prefix: Vec<usize> = sh.stack[..pos].iter().map(|f| f.chosen).collect();
                    sh.diverged = Some(format!("divergence while replaying step {}: enabled {:?}, recorded {:?}; choices so far {:?}", pos, options, sh.stack[pos].options, prefix));
                }
                sh.stack.truncate(pos);
                let pre = sh.stack.last().map(|f| f.preemptions_before + if f.current_enabled && f.chosen > 0 { 1 } else { 0 }).unwrap_or(0);
                sh.stack.push(Frame { options: options.clone(), chosen: 0, preemptions_before: pre, current_enabled });
            }
        } else {
            let pre = sh.stack.last().map(|f| f.preemptions_before + if f.current_enabled && f.chosen > 0 { 1 } else { 0 }).unwrap_or(0);
            sh.stack.push(Frame { options: options.clone(), chosen: 0, preemptions_before: pre, current_enabled });
        }
        let c = sh.stack[pos].chosen;
        sh.pos += 1;
        sh.decisions += 1;
        sh.streak = if sh.streak.0 == options[c] && ids.len() > 1 { (options[c], sh.streak.1 + 1) } else { (options[c], 0) };
        if sh.pos > sh.max_depth {
            sh.max_depth = sh.pos;
        }
        Some(TaskId::from(options[c]))
    }

    fn next_u64(&mut self) -> u64 {
        0
    }
}

// ---------------------------------------------------------------------------------------------
// minimal tracing subscriber (determinism probe only): records shuttle's trace events as text
// ---------------------------------------------------------------------------------------------

struct Rec {
    lines: Arc<Mutex<Vec<String>>>,
}

struct V(String);
impl tracing::field::Visit for V {
    fn record_debug(&mut self, field: &tracing::field::Field, value: &dyn std::fmt::Debug) {
        self.0.push_str(&format!(" {}={:?}", field.name(), value));
    }
}

impl tracing::Subscriber for Rec {
    fn enabled(&self, _: &tracing::Metadata<'_>) -> bool {
        true
    }
    fn new_span(&self, _: &tracing::span::Attributes<'_>) -> tracing::span::Id {
        tracing::span::Id::from_u64(1)
    }
    fn record(&self, _: &tracing::span::Id, _: &tracing::span::Record<'_>) {}
    fn record_follows_from(&self, _: &tracing::span::Id, _: &tracing::span::Id) {}
    fn event(&self, event: &tracing::Event<'_>) {
        let mut v = V(String::new());
        event.record(&mut v);
        self.lines.lock().unwrap().push(format!("{}:{}{}", event.metadata().target(), event.metadata().line().unwrap_or(0), v.0));
    }
    fn enter(&self, _: &tracing::span::Id) {}
    fn exit(&self, _: &tracing::span::Id) {}
}

// ---------------------------------------------------------------------------------------------
// scenarios
// ---------------------------------------------------------------------------------------------

#[derive(Clone, Copy, Debug, PartialEq)]
struct Scenario {
    name: &'static str,
    /// F also merges all partitions into one after batching
    compaction: bool,
    ingest: bool,
    evict: bool,
    /// two query threads instead of one
    two_queries: bool,
    /// column-load scenario: the queries read the column of an evicted partition through DiskReadScheduler::get_or_load
    load: bool,
}

const SCENARIOS: [Scenario; 9] = [
    Scenario { name: "flush+query", compaction: false, ingest: false, evict: false, two_queries: false, load: false },
    Scenario { name: "flush+ingest+query", compaction: false, ingest: true, evict: false, two_queries: false, load: false },
    Scenario { name: "flush+compaction+query", compaction: true, ingest: false, evict: false, two_queries: false, load: false },
    Scenario { name: "flush+compaction+ingest+query", compaction: true, ingest: true, evict: false, two_queries: false, load: false },
    Scenario { name: "flush+compaction+evict+query", compaction: true, ingest: false, evict: true, two_queries: false, load: false },
    Scenario { name: "flush+ingest+two-queries", compaction: false, ingest: true, evict: false, two_queries: true, load: false },
    Scenario { name: "load+load", compaction: false, ingest: false, evict: false, two_queries: true, load: true },
    Scenario { name: "load+evict", compaction: false, ingest: false, evict: true, two_queries: false, load: true },
    Scenario { name: "load+load+evict", compaction: false, ingest: false, evict: true, two_queries: true, load: true },
];

// batches: ids are consecutive so that a prefix of the ingestion history is a prefix of 1..=9
const BATCH_A: [i64; 3] = [1, 2, 3];
const BATCH_B: [i64; 2] = [4, 5];
const BATCH_C: [i64; 4] = [6, 7, 8, 9];

fn batch(ids: &[i64]) -> HashMap<String, InputColumn> {
    let mut m = HashMap::new();
    // one column per table: the iteration order of a partition's column map (std HashMap, seeded per instance) must not
    // decide the order of lock acquisitions, or two runs of the same schedule would differ
    m.insert("id".to_string(), InputColumn::Int(ids.to_vec()));
    m
}

#[derive(Clone, Debug)]
struct Violation {
    sig: String,
    what: String,
    choices: Vec<usize>,
}

struct Report {
    violations: Mutex<Vec<Violation>>,
    outcomes: Mutex<BTreeMap<String, u64>>,
    snapshots_checked: AtomicUsize,
}

/// What one snapshot shows: row ranges and, for resident columns, the ids themselves.
fn check_snapshot(snap: &[Arc<Partition>], acked_before: usize, acked_after: usize) -> Result<String, (String, String)> {
    let mut parts: Vec<(usize, usize, Option<Vec<i64>>)> = vec![];
    // (the snapshot lists partitions in the iteration order of a HashMap: visit them in row order)
    let mut snap: Vec<&Arc<Partition>> = snap.iter().collect();
    snap.sort_by_key(|p| p.range().start);
    for p in snap {
        let r = p.range();
        let mut ids = None;
        for h in p.clone_column_handles() {
            if h.name() == "id" {
                if let Some(col) = h.try_get().as_ref() {
                    let mut store = Vec::new();
                    let d = col.decode(&mut store);
                    let mut v = vec![];
                    for i in 0..d.len() {
                        match d.get_raw(i) {
                            RawVal::Int(x) => v.push(x),
                            other => return Err(("cell-type".into(), format!("id column holds {:?}", other))),
                        }
                    }
                    ids = Some(v);
                }
            }
        }
        parts.push((r.start, r.end, ids));
    }
    parts.sort_by_key(|p| p.0);
    let desc = format!("{:?}", parts.iter().map(|p| (p.0, p.1)).collect::<Vec<_>>());
    let mut next = 0usize;
    for (s, e, ids) in &parts {
        if *s < next {
            return Err(("rows-twice".into(), format!("row ranges overlap: {}", desc)));
        }
        if *s > next {
            return Err(("rows-missing".into(), format!("row ranges leave a gap at {}: {}", next, desc)));
        }
        if let Some(ids) = ids {
            let want: Vec<i64> = (*s as i64 + 1..=*e as i64).collect();
            if *ids != want {
                return Err(("wrong-values".into(), format!("partition {}..{} holds ids {:?}, expected {:?}", s, e, ids, want)));
            }
        }
        next = *e;
    }
    // whole requests only, everything acknowledged before the snapshot started, nothing that was not yet acknowledged when it ended
    let allowed = [BATCH_A.len() + BATCH_B.len(), BATCH_A.len() + BATCH_B.len() + BATCH_C.len()];
    if !allowed.contains(&next) {
        return Err(("partial-request".into(), format!("snapshot covers {} rows, which is not a whole number of requests: {}", next, desc)));
    }
    if next < acked_before {
        return Err(("rows-missing".into(), format!("{} rows were acknowledged before the snapshot started, it covers {}: {}", acked_before, next, desc)));
    }
    if next > acked_after + BATCH_C.len() {
        return Err(("rows-from-nowhere".into(), format!("snapshot covers {} rows, {} acknowledged: {}", next, acked_after, desc)));
    }
    Ok(format!("rows={} parts={}", next, parts.len()))
}

/// The "disk" of the load scenarios: returns the column of partition 0 whenever asked.
struct FakeStore;

fn id_column(ids: &[i64]) -> Arc<Column> {
    let mut b = ColumnBuffer::default();
    b.push_ints(ids.iter().copied(), None);
    b.finalize("id")
}

impl ColumnLoader for FakeStore {
    fn load_column(&self, _table: &str, _partition: PartitionID, _column: &str, _perf: &QueryPerfCounter) -> Option<Vec<Column>> {
        Some(vec![Arc::try_unwrap(id_column(&BATCH_A)).expect("fresh column")])
    }
    fn load_column_range(&self, _: PartitionID, _: PartitionID, _: &str, _: &InnerLocustDB) {
        unimplemented!()
    }
    fn partition_has_been_loaded(&self, _: &str, _: PartitionID, _: &str) -> bool {
        false
    }
    fn mark_subpartition_as_loaded(&self, _: &str, _: PartitionID, _: &str) {}
}

fn read_ids(p: &Partition, drs: &DiskReadScheduler) -> Result<Vec<i64>, (String, String)> {
    let mut want = HashSet::new();
    want.insert("id".to_string());
    let cols = p.get_cols(&want, drs, &QueryPerfCounter::default());
    let Some(c) = cols.get("id") else {
        return Err(("column-missing".into(), "get_cols did not return column id of a partition that has it on disk".into()));
    };
    let mut store = Vec::new();
    let d = c.decode(&mut store);
    let mut v = vec![];
    for i in 0..d.len() {
        match d.get_raw(i) {
            RawVal::Int(x) => v.push(x),
            other => return Err(("cell-type".into(), format!("id column holds {:?}", other))),
        }
    }
    if v != BATCH_A.to_vec() {
        return Err(("wrong-values".into(), format!("column id of partition 0 reads {:?}, stored {:?}", v, BATCH_A)));
    }
    Ok(v)
}

fn body_load(sc: Scenario, report: Arc<Report>, sched: BoundedDfs) {
    let lru = Lru::default();
    let table = Arc::new(Table::new("t", lru.clone(), Some(HashSet::new())));
    let drs = Arc::new(DiskReadScheduler::new(Arc::new(FakeStore), lru.clone(), 8, false));
    // setup: one flushed partition whose column has been evicted
    table.ingest_homogeneous(batch(&BATCH_A));
    table.freeze_buffer();
    let p0 = table.verif_batch().expect("partition 0");
    table.verif_make_evictable(p0.id);
    while let Some(victim) = lru.evict() {
        table.evict(&victim);
    }
    let fail = {
        let report = report.clone();
        let sched = sched.clone();
        Arc::new(move |sig: String, what: String| {
            let mut v = report.violations.lock().unwrap();
            if v.len() < 50 {
                v.push(Violation { sig, what, choices: sched.choices() });
            }
        })
    };
    let mut handles = vec![];
    for _ in 0..(if sc.two_queries { 2 } else { 1 }) {
        let (p0, drs, fail, report) = (p0.clone(), drs.clone(), fail.clone(), report.clone());
        handles.push(shuttle::thread::spawn(move || {
            report.snapshots_checked.fetch_add(1, Ordering::SeqCst);
            match read_ids(&p0, &drs) {
                Ok(_) => *report.outcomes.lock().unwrap().entry("column-read".into()).or_insert(0) += 1,
                Err((kind, what)) => {
                    *report.outcomes.lock().unwrap().entry(format!("violation:{}", kind)).or_insert(0) += 1;
                    fail(format!("C10:locks:load:{}", kind), what);
                }
            }
        }));
    }
    if sc.evict {
        let (table, lru) = (table.clone(), lru.clone());
        handles.push(shuttle::thread::spawn(move || {
            while let Some(victim) = lru.evict() {
                table.evict(&victim);
            }
        }));
    }
    for h in handles {
        let _ = h.join();
    }
    // quiescent: the column can still be read
    if let Err((kind, what)) = read_ids(&p0, &drs) {
        fail(format!("C10:locks:load:final:{}", kind), what);
    }
}

fn body(sc: Scenario, report: Arc<Report>, sched: BoundedDfs) {
    if sc.load {
        return body_load(sc, report, sched);
    }
    let lru = Lru::default();
    let table = Arc::new(Table::new("t", lru.clone(), Some(HashSet::new())));
    // the one lock of this protocol that lives outside the table: InnerLocustDB.wal_size, held by an
    // ingestion from before it appends to the table until it is acknowledged, and by the flush while it freezes the buffers
    let wal_lock = Arc::new(shuttle::sync::Mutex::new(()));
    let acked = Arc::new(AtomicUsize::new(0));

    // setup: batch A flushed into partition 0, batch B in the open buffer
    table.ingest_homogeneous(batch(&BATCH_A));
    table.freeze_buffer();
    let p0 = table.verif_batch().expect("partition 0");
    table.verif_make_evictable(p0.id);
    table.ingest_homogeneous(batch(&BATCH_B));
    acked.store(BATCH_A.len() + BATCH_B.len(), Ordering::SeqCst);

    let fail = {
        let report = report.clone();
        let sched = sched.clone();
        move |sig: String, what: String| {
            let mut v = report.violations.lock().unwrap();
            if v.len() < 50 {
                v.push(Violation { sig, what, choices: sched.choices() });
            }
        }
    };
    let fail = Arc::new(fail);

    let mut handles = vec![];
    // F: one flush of this table (freeze under the ingestion lock, batch, make evictable, optional compaction)
    {
        let table = table.clone();
        let wal_lock = wal_lock.clone();
        let fail = fail.clone();
        handles.push(shuttle::thread::spawn(move || {
            {
                let _g = wal_lock.lock().unwrap();
                table.freeze_buffer();
            }
            if let Some(p) = table.verif_batch() {
                table.verif_make_evictable(p.id);
            }
            if sc.compaction {
                if let Some((range, parts)) = table.plan_compaction(0) {
                    // rebuild the merged columns from the partitions being merged (what InnerLocustDB::compact does through queries)
                    let old = table.snapshot_parts(&parts);
                    let mut ids: Vec<(usize, Vec<i64>)> = vec![];
                    for p in &old {
                        for h in p.clone_column_handles() {
                            if h.name() == "id" {
                                match h.try_get().as_ref() {
                                    Some(col) => {
                                        let mut store = Vec::new();
                                        let d = col.decode(&mut store);
                                        let v: Vec<i64> = (0..d.len())
                                            .map(|i| match d.get_raw(i) {
                                                RawVal::Int(x) => x,
                                                _ => -1,
                                            })
                                            .collect();
                                        ids.push((p.range().start, v));
                                    }
                                    // evicted: the real compaction would load it from disk; here the values are a function of the range
                                    None => ids.push((p.range().start, (p.range().start as i64 + 1..=p.range().end as i64).collect())),
                                }
                            }
                        }
                    }
                    ids.sort();
                    let all: Vec<i64> = ids.into_iter().flat_map(|x| x.1).collect();
                    if all.len() != range.len() {
                        fail("compaction-input".into(), format!("partitions {:?} planned for compaction cover {:?} but hold {} rows", parts, range, all.len()));
                        return;
                    }
                    let mut b = ColumnBuffer::default();
                    b.push_ints(all.iter().copied(), None);
                    let idcol = b.finalize("id");
                    let id = table.next_partition_id();
                    table.compact(id, range.start, vec![idcol], &parts);
                    table.verif_make_evictable(id);
                }
            }
        }));
    }
    // I: one ingestion request
    if sc.ingest {
        let table = table.clone();
        let wal_lock = wal_lock.clone();
        let acked = acked.clone();
        handles.push(shuttle::thread::spawn(move || {
            let _g = wal_lock.lock().unwrap();
            table.ingest_homogeneous(batch(&BATCH_C));
            acked.store(BATCH_A.len() + BATCH_B.len() + BATCH_C.len(), Ordering::SeqCst);
        }));
    }
    // Q: snapshot(s)
    for _ in 0..(if sc.two_queries { 2 } else { 1 }) {
        let table = table.clone();
        let acked = acked.clone();
        let fail = fail.clone();
        let report = report.clone();
        handles.push(shuttle::thread::spawn(move || {
            let before = acked.load(Ordering::SeqCst);
            let snap = table.snapshot(None);
            let after = acked.load(Ordering::SeqCst);
            report.snapshots_checked.fetch_add(1, Ordering::SeqCst);
            match check_snapshot(&snap, before, after) {
                Ok(o) => {
                    *report.outcomes.lock().unwrap().entry(o).or_insert(0) += 1;
                }
                Err((kind, what)) => {
                    *report.outcomes.lock().unwrap().entry(format!("violation:{}", kind)).or_insert(0) += 1;
                    fail(format!("C10:locks:query-not-a-prefix:{}", kind), what);
                }
            }
        }));
    }
    // E: evict everything that is evictable
    if sc.evict {
        let table = table.clone();
        let lru = lru.clone();
        handles.push(shuttle::thread::spawn(move || {
            while let Some(victim) = lru.evict() {
                table.evict(&victim);
            }
        }));
    }
    for h in handles {
        let _ = h.join();
    }
    // quiescent: everything acknowledged is there, once
    let snap = table.snapshot(None);
    let total = acked.load(Ordering::SeqCst);
    match check_snapshot(&snap, total, total) {
        Ok(_) => {}
        Err((kind, what)) => fail(format!("C10:locks:final-content:{}", kind), what),
    }
}

fn explore(sc: Scenario, bound: usize, cap: u64, forced: Option<Vec<usize>>) -> (Arc<Report>, (u64, u64, u64), usize, bool, Option<String>, Option<(String, Vec<usize>)>) {
    let report = Arc::new(Report { violations: Mutex::new(vec![]), outcomes: Mutex::new(BTreeMap::new()), snapshots_checked: AtomicUsize::new(0) });
    let sh = Arc::new(Mutex::new(Shared { cap, forced, ..Default::default() }));
    let sched = BoundedDfs { bound, sh: sh.clone() };
    let mut config = shuttle::Config::new();
    config.failure_persistence = shuttle::FailurePersistence::None;
    config.silence_warnings = true;
    // an execution of these scenarios takes a few hundred decisions; one that takes 50 000 is a livelock (reported with the schedule)
    config.max_steps = shuttle::MaxSteps::FailAfter(50_000);
    let r2 = report.clone();
    let s2 = sched.clone();
    let runner = shuttle::Runner::new(sched, config);
    // a panic inside the table code or a deadlock reported by shuttle ends the exploration of this scenario
    let res = std::panic::catch_unwind(std::panic::AssertUnwindSafe(|| {
        runner.run(move || body(sc, r2.clone(), s2.clone()));
    }));
    let crash = res.err().map(|e| {
        if let Some(s) = e.downcast_ref::<String>() {
            s.clone()
        } else if let Some(s) = e.downcast_ref::<&str>() {
            s.to_string()
        } else {
            "panic".to_string()
        }
    });
    let sh = sh.lock().unwrap();
    if std::env::var("LSCHED_TRACE").is_ok() {
        eprintln!("[trace] execution length classes (<200, <1000, <5000, more): {:?}; first long execution as (task, run length) pairs: {:?}", sh.length_classes, sh.long_example);
    }
    if crash.is_some() && std::env::var("LSCHED_TRACE").is_ok() {
        let n = sh.stack.len();
        let mut rle: Vec<(usize, usize)> = vec![];
        for f in sh.stack.iter() {
            let t = f.options[f.chosen];
            match rle.last_mut() {
                Some((lt, n)) if *lt == t => *n += 1,
                _ => rle.push((t, 1)),
            }
        }
        eprintln!("[trace] fairness switches {}; run lengths of chosen tasks: {:?}", sh.fairness_switches, rle.iter().take(40).collect::<Vec<_>>());
        eprintln!("[trace] crash after {} decisions; first 120 choices {:?}; last decisions {:?}", n, sh.stack.iter().take(120).map(|f| f.chosen).collect::<Vec<_>>(), sh.stack[n.saturating_sub(12)..].iter().map(|f| (f.options.clone(), f.chosen)).collect::<Vec<_>>());
    }
    // the schedule that crashed: its first few hundred choices (a livelock repeats itself afterwards)
    let crash = crash.map(|c| (c, sh.stack.iter().take(600).map(|f| f.chosen).collect::<Vec<_>>()));
    (report, (sh.executions, sh.decisions, sh.fairness_switches), sh.max_depth, sh.capped, sh.diverged.clone(), crash)
}

fn crash_sig(msg: &str) -> String {
    if msg.contains("exceeded max_steps") {
        "C10:locks:livelock".into()
    } else if msg.contains("deadlock") {
        "C10:locks:deadlock".into()
    } else {
        "C10:locks:panic".into()
    }
}

fn main() {
    let args: Vec<String> = std::env::args().collect();
    if args.len() >= 4 && args[1] == "replay" {
        let sc = SCENARIOS.iter().find(|s| s.name == args[2]).copied().expect("scenario name");
        let choices: Vec<usize> = args[3].split(',').filter(|x| !x.is_empty()).map(|x| x.parse().unwrap()).collect();
        let lines = Arc::new(Mutex::new(vec![]));
        let (report, _, _, _, diverged, crash) = if std::env::var("LSCHED_EVENTS").is_ok() {
            let rec = Rec { lines: lines.clone() };
            tracing::subscriber::with_default(rec, || explore(sc, usize::MAX, 1, Some(choices)))
        } else {
            explore(sc, usize::MAX, 1, Some(choices))
        };
        if std::env::var("LSCHED_EVENTS").is_ok() {
            let l = lines.lock().unwrap();
            for x in l.iter().filter(|x| x.contains("waiting to acquire") || x.contains("acquiring") || x.contains("scheduling decision")).rev().take(60).collect::<Vec<_>>().into_iter().rev() {
                let site = x.split("static_create_location: Location { file: \"").nth(1).map(|r| r.split(", col").next().unwrap_or("").replace("\", line:", ":")).unwrap_or_default();
                let head: String = x.chars().take(70).collect();
                let holder = x.split("holder=").nth(1).map(|r| r.split(" semaphore").next().unwrap_or("").to_string()).unwrap_or_default();
                let dec = if x.contains("scheduling decision") { x.split("message=").nth(1).unwrap_or("").to_string() } else { String::new() };
                eprintln!("{} | {} | holder={} {}", head, site.split('/').last().unwrap_or(""), holder, dec);
            }
        }
        if let Some(d) = diverged {
            println!("{}", serde_json::json!({"machinery_error": d}));
            std::process::exit(2);
        }
        let v = report.violations.lock().unwrap();
        if let Some(v) = v.first() {
            println!("{}", serde_json::json!({"sig": v.sig, "what": v.what}));
            std::process::exit(1);
        }
        if let Some((c, _)) = crash {
            println!("{}", serde_json::json!({"sig": crash_sig(&c), "what": c.lines().next().unwrap_or("")}));
            std::process::exit(1);
        }
        println!("{}", serde_json::json!({"ok": true}));
        return;
    }
    if args.len() >= 3 && args[1] == "determinism" {
        // the same choice sequence twice in one process: the enabled sets must be identical step by step
        let sc = SCENARIOS.iter().find(|s| s.name == args[2]).copied().expect("scenario name");
        let choices: Vec<usize> = args.get(3).map(|a| a.split(',').filter(|x| !x.is_empty()).map(|x| x.parse().unwrap()).collect()).unwrap_or_default();
        let mut traces = vec![];
        let mut events: Vec<Vec<String>> = vec![];
        for _ in 0..3 {
            let report = Arc::new(Report { violations: Mutex::new(vec![]), outcomes: Mutex::new(BTreeMap::new()), snapshots_checked: AtomicUsize::new(0) });
            let sh = Arc::new(Mutex::new(Shared { cap: 1, forced: Some(choices.clone()), ..Default::default() }));
            let sched = BoundedDfs { bound: usize::MAX, sh: sh.clone() };
            let mut config = shuttle::Config::new();
            config.failure_persistence = shuttle::FailurePersistence::None;
            config.silence_warnings = true;
            let (r2, s2) = (report.clone(), sched.clone());
            let lines = Arc::new(Mutex::new(vec![]));
            let rec = Rec { lines: lines.clone() };
            tracing::subscriber::with_default(rec, || {
                shuttle::Runner::new(sched, config).run(move || body(sc, r2.clone(), s2.clone()));
            });
            let t: Vec<(Vec<usize>, usize)> = sh.lock().unwrap().stack.iter().map(|f| (f.options.clone(), f.chosen)).collect();
            traces.push(t);
            events.push(lines.lock().unwrap().clone());
        }
        for i in 1..traces.len() {
            let (a, b) = (&traces[0], &traces[i]);
            let first = (0..a.len().max(b.len())).find(|k| a.get(*k) != b.get(*k));
            println!("run 0 vs run {}: lengths {} / {}, first difference at step {:?}: {:?} vs {:?}", i, a.len(), b.len(), first, first.and_then(|k| a.get(k)), first.and_then(|k| b.get(k)));
            if first.is_some() {
                let (ea, eb) = (&events[0], &events[i]);
                let norm = |s: &String| s.split("0x").next().unwrap_or("").to_string();
                let fe = (0..ea.len().max(eb.len())).find(|k| ea.get(*k).map(norm) != eb.get(*k).map(norm));
                if let Some(k) = fe {
                    for j in k.saturating_sub(6)..(k + 4) {
                        println!("   [{}] {:?}\n        {:?}", j, ea.get(j), eb.get(j));
                    }
                }
            }
        }
        return;
    }
    let tier = args.get(2).map(|s| s.as_str()).unwrap_or("quick");
    let (bound, cap) = if tier == "quick" { (2usize, 400_000u64) } else { (3usize, 4_000_000u64) };
    let only = args.get(3).cloned();
    let mut out = vec![];
    for sc in SCENARIOS {
        if let Some(o) = &only {
            if o != sc.name {
                continue;
            }
        }
        // four threads: one preemption less
        let threads = (if sc.load { 0 } else { 1 }) + sc.ingest as usize + sc.evict as usize + if sc.two_queries { 2 } else { 1 };
        let bound = if threads >= 4 { bound - 1 } else { bound };
        let t0 = std::time::Instant::now();
        let (report, (executions, decisions, fairness), max_depth, capped, diverged, crash) = explore(sc, bound, cap, None);
        let violations: Vec<_> = report.violations.lock().unwrap().iter().map(|v| serde_json::json!({"sig": v.sig, "what": v.what, "scenario": sc.name, "choices": v.choices})).collect();
        let mut violations = violations;
        if let Some((c, choices)) = &crash {
            let first_line = c.lines().next().unwrap_or("").to_string();
            violations.push(serde_json::json!({"sig": crash_sig(c), "what": format!("scenario {}: {}", sc.name, first_line), "scenario": sc.name, "choices": choices}));
        }
        out.push(serde_json::json!({
            "scenario": sc.name,
            "preemption_bound": bound,
            "executions": executions,
            "decisions": decisions,
            "spin_fairness_switches": fairness,
            "max_decisions_in_one_execution": max_depth,
            "snapshots_checked": report.snapshots_checked.load(Ordering::SeqCst),
            "outcomes": *report.outcomes.lock().unwrap(),
            "capped": capped,
            "divergence": diverged,
            "violations": violations,
            "wall_s": t0.elapsed().as_secs_f64(),
        }));
    }
    println!("{}", serde_json::to_string(&out).unwrap());
}
