#!/usr/bin/env python3
"""Copies /repo's working tree to /verif/target-sched/src-copy and switches the lock / atomic types of the
table core (Table, Partition, ColumnHandle, Lru, DiskReadScheduler) from std::sync to shuttle::sync, so that shuttle's scheduler
decides every lock acquisition and atomic access of that code. Nothing else is changed; files are rewritten
only when their content changes (keeps cargo's incremental state)."""
import os, re, subprocess, sys

SRC = "/repo"
DST = "/verif/target-sched/src-copy"
FILES = ["src/mem_store/table.rs", "src/mem_store/partition.rs", "src/mem_store/lru.rs", "src/scheduler/disk_read_scheduler.rs"]

os.makedirs(DST, exist_ok=True)
subprocess.check_call(["rsync", "-a", "--delete", "--checksum", "--exclude", "/target", "--exclude", "/.git", SRC + "/", DST + "/"])

def switch(text):
    out = []
    n = 0
    for line in text.split("\n"):
        m = re.match(r"^use std::sync::(.*);\s*$", line)
        if m:
            body = m.group(1)
            if body.startswith("atomic::"):
                out.append("use shuttle::sync::" + body + ";")
                n += 1
                continue
            names = [x.strip() for x in body.strip("{}").split(",")] if body.startswith("{") else [body.strip()]
            keep = [x for x in names if x in ("Arc", "Weak")]
            move = [x for x in names if x not in ("Arc", "Weak")]
            if keep:
                out.append("use std::sync::{" + ", ".join(keep) + "};")
            if move:
                out.append("use shuttle::sync::{" + ", ".join(move) + "};")
                n += 1
            continue
        out.append(line)
    return "\n".join(out), n

total = 0
for f in FILES:
    p = os.path.join(DST, f)
    text = open(os.path.join(SRC, f)).read()
    new, n = switch(text)
    if n == 0:
        sys.exit("prepare.py: no std::sync import found in %s - the transformation no longer applies" % f)
    total += n
    if not os.path.exists(p) or open(p).read() != new:
        open(p, "w").write(new)

# the copy needs the shuttle crate
p = os.path.join(DST, "Cargo.toml")
text = open(p).read()
if "\nshuttle" not in text:
    text = text.replace("[dependencies]\n", "[dependencies]\nshuttle = \"0.9.3\"\n", 1)
    open(p, "w").write(text)
print("prepare.py: %d import lines switched to shuttle::sync in %s" % (total, ", ".join(FILES)))
