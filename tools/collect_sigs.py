#!/usr/bin/env python3
"""Runs all shards of a check directly and lists every violation signature with one example.
usage: collect_sigs.py <prop> <tier> [out.json]"""
import json,collections,sys,subprocess,time
prop,tier=sys.argv[1],sys.argv[2]
n=16
t0=time.time()
ps=[subprocess.Popen(['/verif/target/debug/lvmc','shard',prop,tier,str(i),str(n),f'/tmp/cs-{prop}-{tier}-{i}.json'],stderr=subprocess.DEVNULL) for i in range(n)]
for p in ps: p.wait()
sig={}; ev=0; caps=[]
for i in range(n):
    try: r=json.load(open(f'/tmp/cs-{prop}-{tier}-{i}.json'))
    except Exception as e: print('shard',i,'failed',e); continue
    ev+=r['evaluations']; caps+=r['caps_hit']
    for v in r['violations']:
        if v['sig'] not in sig or v['weight']<sig[v['sig']]['weight']: sig[v['sig']]=v
print(f'{prop} {tier}: evaluations={ev} signatures={len(sig)} wall={time.time()-t0:.0f}s caps={len(caps)}')
out=sys.argv[3] if len(sys.argv)>3 else f'/tmp/sigs-{prop}-{tier}.json'
json.dump(sig,open(out,'w'),indent=1)
for s in sorted(sig): print(' ',s)
