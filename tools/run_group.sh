#!/bin/bash
# run_group.sh <tier> <prop>...  : applies /verif/seeded/<prop>-3/patch.diff of every listed property to /repo,
# runs ./check <prop> <tier> for each, reverts. Output per property in /tmp/grp-<prop>.log
tier=$1; shift
cd /verif
for p in "$@"; do git -C /repo apply --check /verif/seeded/$p-3/patch.diff || { echo "patch $p does not apply"; exit 2; }; done
for p in "$@"; do git -C /repo apply /verif/seeded/$p-3/patch.diff; done
git -C /repo status --short
for p in "$@"; do
  ./check $p $tier > /tmp/grp-$p.log 2>&1; code=$?
  echo "== $p exit=$code $(grep -c '^VIOLATION' /tmp/grp-$p.log) violations"; grep -m3 "sig=" /tmp/grp-$p.log
done
git -C /repo checkout -- . ; git -C /repo status --short
