#!/usr/bin/env python3
"""Lists signatures of a collect_sigs.py result that are not `known:` in KNOWN_FINDINGS.txt, and known ones not seen.
usage: sig_diff.py <prop> <sigs.json>"""
import json,sys,re
prop,f=sys.argv[1],sys.argv[2]
known={}
for l in open('/verif/KNOWN_FINDINGS.txt'):
    m=re.match(r'known: property=(\S+) sig=(\S+) (.*)',l)
    if m and m.group(1)==prop: known[m.group(2)]=m.group(3)
s=json.load(open(f))
seen=set()
for k in sorted(s):
    kk=k.replace(' ','_')
    seen.add(kk)
    if kk not in known: print('NEW  ',kk,'|',s[k]['what'][:260].replace('\n',' '))
for k in known:
    if k not in seen: print('UNSEEN',k)
