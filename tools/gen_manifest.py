#!/usr/bin/env python3
"""Regenerates /verif/MANIFEST.json from the table below (run after adding a check)."""
import json, subprocess
props=[json.loads(l)['id'] for l in open('/verif/properties.jsonl')]
hooks=subprocess.run("git -C /repo log --format=%h --grep='erification hooks' --grep='verification hooks'",shell=True,capture_output=True,text=True).stdout.split()
HIST_NOTE="Trusted: the reference model (rows as maps, NULL for absent), the harness driver, sqlparser quoting of identifiers. Values outside the stated batch shapes, histories longer than the stated depth and other option values are not covered. Deadlines: a call that does not return within 4 s (12 s on re-run and on replay) counts as a hang."
C={
 "C07":dict(engine="E-hist",technique="explicit-state bounded model checking of the implementation: exhaustive enumeration of all operation histories up to a depth on a real on-disk database, reference-model oracle after every prefix",
   text="All histories of depth 3-4 (quick) / 4-5 (thorough) over {ingest of 6 batch shapes, force_flush, evict_cache, restart} under 6 compaction / sub-partition configurations are executed against the real database; after every prefix the full table content is compared with a reference model. Within these bounds the check is exhaustive, so any maintenance step that changes content for these shapes is found.", ref="4/C07", note=HIST_NOTE),
 "C08":dict(engine="E-hist",technique="explicit-state bounded model checking of the implementation: exhaustive enumeration of ingest/flush/restart histories, reference-model oracle on tables and catalogue after every prefix",
   text="All histories of depth 4-5 (quick) / 6-7 (thorough) over {ingest into t, u, t+u, force_flush, restart} x io_threads {1,4} x factor {4,0}, plus background-flush histories (max_wal_files=1, max_wal_size_bytes=1); after every prefix tables, _meta_tables, _meta_columns_<t> and search_column_names are compared with the reference (same rows, same order, each once).", ref="4/C08", note=HIST_NOTE),
 "C13":dict(engine="E-hist",technique="explicit-state bounded model checking of the implementation: exhaustive enumeration of histories of batches with varying column sets, catalogue oracle after every prefix",
   text="All histories of depth 3-4 (quick) / 4-5 (thorough) over {6 batches with different column subsets of an 8-name pool into two tables, force_flush, restart} x factor {0,4} x sub-partition size {default,1}; after every prefix SELECT *, the explicit column list, _meta_columns_<t>, _meta_tables and search_column_names must name every table / column exactly once with NULL where a batch lacked the column.", ref="4/C13", note=HIST_NOTE),
 "C18":dict(engine="E-hist",technique="explicit-state bounded model checking of the implementation: exhaustive enumeration of ingest/flush/restart histories, directory-listing and log-size invariant after every completed flush",
   text="All histories of depth 4-5 (quick) / 6-7 (thorough) over {ingest t, ingest u, force_flush, restart} x 12 configurations (factor, sub-partition size, io / compaction threads), plus histories with max_wal_size_bytes=1 where ingestion is held back until the background flush ran; after each completed flush the recursive directory listing must equal {meta} + the files named by the decoded on-disk catalogue and the accounted log size must be 0.", ref="4/C18", note=HIST_NOTE),
}
checks=[]
for p in props:
    if p in C:
        c=C[p]
        checks.append({"property_id":p,"quick_cmd":f"./check {p} quick","thorough_cmd":f"./check {p} thorough","evidence_file":f"/verif/evidence/{p}.json",
          "replay_cmd_template":f"./check {p} --replay {{path}}","engine":c["engine"],
          "level_claimed":{"category":"model_checking","text":c["text"],"design_ref":c["ref"]},"level_note":c["note"],"technique":c["technique"]})
na=[{"property_id":p,"reason":"check under construction (design in DESIGN.md section 4); not claimed until its engine is committed"} for p in props if p not in C]
m={"version":1,"setup_cmd":"./setup.sh",
 "hooks":{"guard":"--cfg locustdb_verif","enable":"rustflags = [\"--cfg\", \"locustdb_verif\"] in /verif/harness/.cargo/config.toml; the harness crate /verif/harness/lvmc has a path dependency on /repo, so every ./check rebuilds /repo's working tree with the hooks on",
   "baseline_off_cmd":"cd /repo && cargo nextest run --workspace --no-fail-fast --test-threads 8 --offline","source_commits":hooks,"add_only":True},
 "engines":[{"name":"E-hist","path":"/verif/harness/lvmc/src/hist.rs","serves_properties":["C07","C08","C13","C18"],"kind_free_text":"exhaustive enumeration of operation histories on the real on-disk database, reference model oracle"}],
 "checks":checks,"not_applicable":na,
 "notes":"All checks are bounded exhaustive explorations of the real implementation (no separate model). KNOWN_FINDINGS.txt lists repaired defects (fixed:) and recorded ones (known:)."}
json.dump(m,open('/verif/MANIFEST.json','w'),indent=1)
print("checks:",[c['property_id'] for c in checks])
