//! C11: every call completes; a failing request does not damage the database.
//! (a) every sequence of requests up to a depth over a menu of valid and failing requests, on
//! databases with 1 / 2 workers, in memory and on disk, each followed by a canary set under a
//! deadline; (b) the same failing queries placed at every sync point of a concurrent flush (E-gate).
use serde::{Deserialize, Serialize};
use serde_json::{json, Value};

use crate::c01::panic_file;
use crate::common::*;
use crate::gate;
use crate::runner::*;

pub struct C11;

#[derive(Clone, Debug, Serialize, Deserialize, PartialEq, Eq, Hash)]
pub enum Req {
    Query(String),
    Ingest(u8),
    Flush,
    Stats,
    MemTree,
    Evict,
}

/// The table is set up as three partitions (2 + 1 + 1 rows) whose `big` sums are 4e18 each: a SUM
/// over it overflows only when partial results of different merge levels are combined at the end.
fn base_batches() -> Vec<Batch> {
    let part = |ids: &[i64], big: &[i64], w: &[i64], s: &[&str], k: &[i64], nv: Vec<RVal>, hx: &[&str]| {
        Batch::one(
            TableBatch::new("t", ids.len())
                .col("id", ids.iter().map(|x| ri(*x)).collect())
                .col("big", big.iter().map(|x| ri(*x)).collect())
                .col("w", w.iter().map(|x| ri(*x)).collect())
                .col("s", s.iter().map(|x| rs(x)).collect())
                .col("k", k.iter().map(|x| ri(*x)).collect())
                .col_repr("nv", nv, Repr::Mixed)
                .col("hx", hx.iter().map(|x| rs(x)).collect()),
        )
    };
    let e18 = 1_000_000_000_000_000_000i64;
    vec![
        part(&[1, 2], &[e18, 3 * e18], &[1 << 40, 3], &["a", "b"], &[1, 2], vec![ri(1), RVal::Null], &["00ff10aa", "deadbeef"]),
        part(&[3], &[4 * e18], &[i64::MAX - 1], &["a"], &[1], vec![ri(3)], &["0a0b0c0d"]),
        part(&[4], &[4 * e18], &[-5], &["c"], &[2], vec![RVal::Null], &["11223344"]),
    ]
}

fn ingest_batch(kind: u8, seq: usize) -> Batch {
    let base = 100 * (seq as i64 + 1);
    match kind {
        // ordinary
        0 => Batch::one(TableBatch::new("t", 2).col("id", vec![ri(base), ri(base + 1)]).col("s", vec![rs("n"), rs("m")])),
        // a request whose table part has no rows
        1 => Batch::one(TableBatch::new("t", 0).col("id", vec![]).col("s", vec![])),
        // strings, numbers and NULL in one column
        2 => Batch::one(TableBatch::new("t", 3).col("id", vec![ri(base), ri(base + 1), ri(base + 2)]).col_repr("mx", vec![rs("x"), ri(5), RVal::Null], Repr::Mixed)),
        // a new table and a new column at once
        _ => Batch {
            tables: vec![
                TableBatch::new("t", 1).col("id", vec![ri(base)]).col("newcol", vec![rf(0.5)]),
                TableBatch::new("fresh", 1).col("q", vec![rs("z")]),
            ],
        },
    }
}

fn ingest_rows(kind: u8) -> usize {
    match kind {
        0 => 2,
        1 => 0,
        2 => 3,
        _ => 1,
    }
}

pub fn menu() -> Vec<Req> {
    let q = |s: &str| Req::Query(s.to_string());
    vec![
        q("SELECT id, s FROM t"),
        q("SELEC id FROM t"),
        q("SELECT s + 1 FROM t"),
        q("SELECT w * w FROM t"),
        q("SELECT SUM(w) + SUM(w) FROM t"),
        // constant-only projections: the engine panics while converting the final result, i.e. inside the task's critical section
        q("SELECT 1 FROM t"),
        q("SELECT 'c' FROM t"),
        q("SELECT SUM(big) FROM t"),
        q("SELECT k, SUM(big) FROM t"),
        q("SELECT id FROM t GROUP BY id"),
        q("SELECT id FROM nosuchtable"),
        q("SELECT id FROM t ORDER BY id LIMIT 2 OFFSET 99"),
        q("SELECT id FROM t WHERE regex(s, '(')"),
        q("SELECT id FROM t LIMIT 1.5"),
        q("SELECT k, s, SUM(nv) FROM t WHERE s = 'a'"),
        q("SELECT AVG(nv) FROM t"),
        q("SELECT id FROM t ORDER BY 1"),
        q(";"),
        q("SELECT * FROM t"),
        Req::Ingest(0),
        Req::Ingest(1),
        Req::Ingest(2),
        Req::Ingest(3),
        Req::Flush,
        Req::Stats,
        Req::MemTree,
        Req::Evict,
    ]
}

fn req_name(r: &Req) -> String {
    match r {
        Req::Query(q) => format!("query[{}]", q),
        Req::Ingest(k) => format!("ingest[{}]", ["rows", "zero-rows", "mixed-with-null", "new-table-and-column"][*k as usize]),
        Req::Flush => "force_flush".into(),
        Req::Stats => "table_stats".into(),
        Req::MemTree => "mem_tree".into(),
        Req::Evict => "evict_cache".into(),
    }
}

#[derive(Clone, Debug, Serialize, Deserialize)]
pub struct SeqCase {
    pub opts: DbOpts,
    pub reqs: Vec<Req>,
}

fn issue(db: &mut Db, r: &Req, seq: usize, rows: &mut usize) -> Result<String, (String, String)> {
    let res: Outcome<String> = match r {
        Req::Query(q) => match db.query(q) {
            Outcome::Ok(Ok(o)) => Outcome::Ok(format!("rows:{}", o.rows.len())),
            Outcome::Ok(Err((k, _))) => Outcome::Ok(format!("error:{}", k)),
            Outcome::Panic(m) => Outcome::Panic(m),
            Outcome::Hang => Outcome::Hang,
        },
        Req::Ingest(k) => {
            let r = db.ingest_batch(&ingest_batch(*k, seq), IngestPath::Wire);
            if matches!(r, Outcome::Ok(())) {
                *rows += ingest_rows(*k);
            }
            match r {
                Outcome::Ok(()) => Outcome::Ok("acknowledged".into()),
                Outcome::Panic(m) => Outcome::Panic(m),
                Outcome::Hang => Outcome::Hang,
            }
        }
        Req::Flush => match db.flush() {
            Outcome::Ok(()) => Outcome::Ok("flushed".into()),
            Outcome::Panic(m) => Outcome::Panic(m),
            Outcome::Hang => Outcome::Hang,
        },
        Req::Stats => match db.call(|db, rt| rt.block_on(db.table_stats()).map(|s| s.len()).map_err(|e| e.to_string())) {
            Outcome::Ok(Ok(n)) => Outcome::Ok(format!("tables:{}", n.min(1))),
            Outcome::Ok(Err(e)) => Outcome::Ok(format!("error:{}", e)),
            Outcome::Panic(m) => Outcome::Panic(m),
            Outcome::Hang => Outcome::Hang,
        },
        Req::MemTree => match db.call(|db, rt| rt.block_on(db.mem_tree(2, None)).map(|s| s.len()).map_err(|e| e.to_string())) {
            Outcome::Ok(Ok(n)) => Outcome::Ok(format!("tables:{}", n.min(1))),
            Outcome::Ok(Err(e)) => Outcome::Ok(format!("error:{}", e)),
            Outcome::Panic(m) => Outcome::Panic(m),
            Outcome::Hang => Outcome::Hang,
        },
        Req::Evict => match db.evict() {
            Outcome::Ok(_) => Outcome::Ok("evicted".into()),
            Outcome::Panic(m) => Outcome::Panic(m),
            Outcome::Hang => Outcome::Hang,
        },
    };
    let panics = take_panics();
    match res {
        Outcome::Ok(s) => Ok(s),
        Outcome::Panic(m) => Err((
            format!("caller-panic:{}:{}", panics.first().map(panic_file).unwrap_or_default(), crate::c03::norm_msg(&m)),
            format!("{} panicked in the caller: {}; database panics {:?}", req_name(r), m, panics.iter().map(|p| format!("{} {}", panic_file(p), p.message)).collect::<Vec<_>>()),
        )),
        Outcome::Hang => Err((
            format!("hang:{}", panics.first().map(panic_file).unwrap_or_default()),
            format!("{} did not return within the deadline; database panics {:?}", req_name(r), panics.iter().map(|p| format!("{} {}", panic_file(p), p.message)).collect::<Vec<_>>()),
        )),
    }
}

/// Canary set: the database must still serve every kind of request.
fn canaries(db: &mut Db, rows: &mut usize, seq: usize) -> Result<(), (String, String)> {
    let check_count = |db: &mut Db, rows: usize, when: &str| -> Result<(), (String, String)> {
        let r = db.query("SELECT COUNT(1) FROM t");
        let panics = take_panics();
        match r {
            Outcome::Ok(Ok(o)) if o.rows == vec![vec![ri(rows as i64)]] => Ok(()),
            Outcome::Ok(Ok(o)) => Err((format!("canary-query:wrong-count:{}", when), format!("canary COUNT(1) {} returned {:?}, {} rows were acknowledged", when, o.rows, rows))),
            Outcome::Ok(Err((k, m))) => Err((format!("canary-query:error:{}:{}:{}", k, crate::c03::norm_msg(&m), panics.first().map(panic_file).unwrap_or_default()), format!("canary query {} failed: {}: {}", when, k, m))),
            Outcome::Panic(m) => Err((format!("canary-query:caller-panic:{}", crate::c03::norm_msg(&m)), format!("canary query {} panicked in the caller: {}", when, m))),
            Outcome::Hang => Err((format!("canary-query:hang:{}", panics.first().map(panic_file).unwrap_or_default()), format!("canary query {} did not return (no worker left?); panics {:?}", when, panics.iter().map(|p| &p.message).collect::<Vec<_>>()))),
        }
    };
    check_count(db, *rows, "after-request")?;
    // ingestion
    let r = db.ingest_batch(&ingest_batch(0, 50 + seq), IngestPath::Wire);
    let panics = take_panics();
    match r {
        Outcome::Ok(()) => *rows += 2,
        Outcome::Panic(m) => return Err((format!("canary-ingest:caller-panic:{}:{}", panics.first().map(panic_file).unwrap_or_default(), crate::c03::norm_msg(&m)), format!("canary ingestion panicked in the caller: {}", m))),
        Outcome::Hang => return Err((format!("canary-ingest:hang:{}", panics.first().map(panic_file).unwrap_or_default()), "canary ingestion did not return".into())),
    }
    check_count(db, *rows, "after-canary-ingest")?;
    if db.opts.on_disk {
        let r = db.flush();
        let panics = take_panics();
        match r {
            Outcome::Ok(()) => {}
            Outcome::Panic(m) => return Err((format!("canary-flush:caller-panic:{}", crate::c03::norm_msg(&m)), format!("canary force_flush panicked in the caller: {}", m))),
            Outcome::Hang => {
                return Err((
                    format!("canary-flush:hang:{}", panics.first().map(panic_file).unwrap_or_default()),
                    format!("canary force_flush did not return (flush thread lost?); panics {:?}", panics.iter().map(|p| format!("{} {}", panic_file(p), p.message)).collect::<Vec<_>>()),
                ))
            }
        }
        check_count(db, *rows, "after-canary-flush")?;
    }
    let r = db.call(|db, rt| rt.block_on(db.table_stats()).map(|s| s.len()).map_err(|e| e.to_string()));
    match r {
        Outcome::Ok(Ok(_)) => Ok(()),
        Outcome::Ok(Err(e)) => Err(("canary-stats:error".into(), format!("canary table_stats failed: {}", e))),
        other => Err((format!("canary-stats:{}", if matches!(other, Outcome::Hang) { "hang" } else { "caller-panic" }), format!("canary table_stats: {}", other.describe()))),
    }
}

pub fn run_sequence(c: &SeqCase, tr: &mut u64) -> Option<(String, String, usize)> {
    let _ = take_panics();
    std::env::set_var("LVMC_DEADLINE_MS", std::env::var("LVMC_C11_DEADLINE_MS").unwrap_or_else(|_| "8000".into()));
    let (mut db, r) = Db::open(&c.opts, None);
    std::env::remove_var("LVMC_DEADLINE_MS");
    if !matches!(r, Outcome::Ok(())) {
        db.destroy();
        return Some(("open".into(), r.describe(), 0));
    }
    let mut rows = 0usize;
    for b in base_batches() {
        let r = db.ingest_batch(&b, IngestPath::Wire);
        if !matches!(r, Outcome::Ok(())) {
            db.destroy();
            return Some(("setup-ingest:hang-or-failure".into(), r.describe(), 0));
        }
        rows += b.tables[0].rows;
        // one partition per batch (in memory-only databases force_flush batches the buffer as well)
        let r = db.flush();
        if !matches!(r, Outcome::Ok(())) {
            db.destroy();
            return Some(("setup-flush:hang-or-failure".into(), r.describe(), 0));
        }
    }
    if std::env::var("LVMC_TRACE").is_ok() {
        let st = db.call(|db, rt| rt.block_on(db.table_stats()).map(|s| s.iter().map(|t| format!("{} rows={} batches={} buffer={}", t.name, t.rows, t.batches, t.buffer_length)).collect::<Vec<_>>()).map_err(|e| e.to_string()));
        if let Outcome::Ok(st) = st {
            eprintln!("[trace] after setup: {:?}", st);
        }
    }
    let mut result = None;
    for (i, r) in c.reqs.iter().enumerate() {
        *tr += 1;
        match issue(&mut db, r, i, &mut rows) {
            Ok(res) => {
                if std::env::var("LVMC_TRACE").is_ok() {
                    eprintln!("[trace] {} -> {}", req_name(r), res);
                }
            }
            Err((sig, what)) => {
                result = Some((format!("request:{}", sig), format!("request {} of {:?}: {}", i, c.reqs.iter().map(req_name).collect::<Vec<_>>(), what), i));
                break;
            }
        }
        *tr += 4;
        if let Err((sig, what)) = canaries(&mut db, &mut rows, i) {
            result = Some((format!("after:{}", sig), format!("after request {} ({}) of {:?}: {}", i, req_name(r), c.reqs.iter().map(req_name).collect::<Vec<_>>(), what), i));
            break;
        }
    }
    if db.dead {
        std::mem::forget(db);
    } else {
        db.destroy();
    }
    result
}

pub fn adhoc(desc: &str) -> i32 {
    let mut parts = desc.split(';');
    let ci: usize = parts.next().unwrap().trim().parse().unwrap();
    let reqs: Vec<Req> = parts.map(|p| Req::Query(p.trim().to_string())).collect();
    let case = SeqCase { opts: configs()[ci].clone(), reqs };
    let mut tr = 0;
    match run_sequence(&case, &mut tr) {
        None => {
            println!("ok ({} calls)", tr);
            0
        }
        Some((sig, what, at)) => {
            println!("VIOLATION sig={} at={}\n{}", sig, at, what);
            1
        }
    }
}

fn configs() -> Vec<DbOpts> {
    let base = DbOpts::default();
    vec![
        DbOpts { on_disk: false, threads: 1, partition_combine_factor: 1000, ..base.clone() },
        DbOpts { on_disk: false, threads: 2, ..base.clone() },
        DbOpts { on_disk: true, threads: 1, partition_combine_factor: 0, ..base.clone() },
        DbOpts { on_disk: true, threads: 2, partition_combine_factor: 4, ..base.clone() },
        // no compaction: the table keeps its three partitions
        DbOpts { on_disk: true, threads: 1, partition_combine_factor: 1000, ..base.clone() },
    ]
}

fn failing_gate_scenarios() -> Vec<gate::Scenario> {
    let mut v = vec![];
    for q in ["SELECT w * w FROM t", "SELEC", "SELECT s + 1 FROM t", "SELECT SUM(x) + SUM(x) FROM t", "SELECT id FROM t ORDER BY id LIMIT 1 OFFSET 99", "SELECT id FROM nosuch"] {
        v.push(gate::Scenario { query: q.to_string(), cold: false, with_ingest: false, factor: 0, restart_check: false, no_query: false, with_evict: false });
    }
    v
}

impl Engine for C11 {
    fn property(&self) -> &'static str {
        "C11"
    }

    fn describe(&self, tier: Tier) -> Describe {
        let depth = if tier == Tier::Quick { 2 } else { 3 };
        Describe {
            level: "model_checking",
            rule: format!("(a) every sequence of 1..{} requests over a menu of 27 (valid query, syntax error, type error, overflow, overflow in the final pass, overflow that only appears when the partial sums of three partitions are merged, unsupported construct, unknown table, OFFSET beyond the table, invalid regex, fractional LIMIT, two aggregates that make the engine panic internally, constant-only projections that make it panic while the finished task holds its state lock, ORDER BY constant, empty statement, SELECT *, ingestion of rows / of a zero-row table part / of a mixed column with NULL / of a new table and column, force_flush, table_stats, mem_tree, evict_cache) on 5 database configurations (1 or 2 workers x memory-only or on disk, with compaction after every flush / occasional / never) holding a three-partition table that exercises offset, dictionary, hex-packed and nullable encodings; every call must return a value or an error within the deadline, and after EVERY request the canary set must succeed: COUNT(1) equals the acknowledged row count, an ingestion is acknowledged and visible, force_flush returns, table_stats answers; (b) six failing queries placed at every sync point of a concurrent force_flush with compaction (all schedules with at most 2 context switches): flush and query must complete, no database thread may panic, afterwards all rows are there. Non-trivial: sequences containing a failing request; distinct by (configuration, sequence) / sync-point trace.", depth),
            assumptions: vec!["deadline 3 s per call (12 s on re-run and replay)".into(), "a panic inside a worker that is caught and reported as an error value is not a violation by itself; the canaries decide whether the database was damaged".into()],
            bounds: json!({"menu": menu().iter().map(req_name).collect::<Vec<_>>(), "depth": depth, "configurations": configs().len()}),
            states_meaning: "distinct (configuration, request sequence) cases and schedules executed",
        }
    }

    fn run_shard(&self, tier: Tier, shard: usize, nshards: usize, out: &mut ShardResult) {
        let depth = if tier == Tier::Quick { 2 } else { 3 };
        let m = menu();
        let mut seqs: Vec<Vec<Req>> = m.iter().map(|r| vec![r.clone()]).collect();
        for a in &m {
            for b in &m {
                seqs.push(vec![a.clone(), b.clone()]);
            }
        }
        if depth >= 3 {
            // third request: the damaging candidates first, then any
            for a in &m {
                for b in &m {
                    for c in m.iter().step_by(2) {
                        seqs.push(vec![a.clone(), b.clone(), c.clone()]);
                    }
                }
            }
        }
        let mut idx = 0usize;
        for opts in configs() {
            for s in &seqs {
                // sequences of length 2 are prefixes-closed: length-1 sequences only once per configuration
                idx += 1;
                if idx % nshards != shard {
                    continue;
                }
                let case = SeqCase { opts: opts.clone(), reqs: s.clone() };
                let mut tr = 0;
                let mut r = run_sequence(&case, &mut tr);
                if let Some((sig, _, _)) = &r {
                    if sig.contains("hang") {
                        std::env::set_var("LVMC_C11_DEADLINE_MS", "30000");
                        let mut tr2 = 0;
                        let again = run_sequence(&case, &mut tr2);
                        std::env::remove_var("LVMC_C11_DEADLINE_MS");
                        if again.as_ref().map(|a| &a.0) != Some(sig) {
                            out.count("transient_stalls_discarded", 1);
                            r = again;
                        }
                    }
                }
                out.evaluations += 1;
                out.transitions += tr;
                let h = hash64(format!("{:?}", case).as_bytes());
                out.states.insert(h);
                if s.iter().any(|r| !matches!(r, Req::Query(q) if q == "SELECT id, s FROM t")) {
                    out.nontrivial.insert(h);
                }
                match r {
                    None => out.outcome("all-requests-and-canaries-ok"),
                    Some((sig, what, at)) => {
                        if std::env::var("LVMC_TRACE").is_ok() {
                            eprintln!("[trace] {:?} :: {} :: {}", opts.on_disk, sig, what);
                        }
                        out.outcome(&format!("violation:{}", sig.split(':').take(2).collect::<Vec<_>>().join(":")));
                        let mut small = case.clone();
                        small.reqs.truncate(at + 1);
                        out.violation(Violation {
                            sig: format!("C11:{}:{}", sig, req_name(&small.reqs[at]).split('[').next().unwrap_or("")),
                            what: format!("configuration workers={} on_disk={}: {}", opts.threads, opts.on_disk, what),
                            weight: (at as u64 + 1) * 10 + if opts.on_disk { 1 } else { 0 },
                            case: serde_json::to_value(&small).unwrap(),
                        });
                    }
                }
                if out.samples.len() < 2 && s.len() == 2 && opts.on_disk {
                    out.sample(json!({"workers": opts.threads, "on_disk": opts.on_disk, "requests": s.iter().map(req_name).collect::<Vec<_>>()}));
                }
            }
        }
        // (b) failing queries at every sync point of a flush
        gate::install_gate_controller();
        for (si, sc) in failing_gate_scenarios().iter().enumerate() {
            if (si + 3) % nshards != shard {
                continue;
            }
            let mut local = vec![];
            let (runs, capped) = gate::explore(sc, 2, if tier == Tier::Quick { 400 } else { 3000 }, |choices, obs| {
                out.evaluations += 1;
                out.transitions += obs.points.len() as u64;
                let h = hash64(format!("{:?}|{:?}", sc, obs.trace).as_bytes());
                out.states.insert(h);
                out.nontrivial.insert(h);
                // a failing query is expected to fail: only completion, panics and final content count
                let v = obs.violation.clone().filter(|(sig, _)| !sig.starts_with("query-failed") && !sig.starts_with("query-not-a-prefix"));
                out.outcome(&format!("schedule:{}", if v.is_some() { "violation" } else { "ok" }));
                if let Some((sig, what)) = v {
                    local.push((choices.to_vec(), sig, what, obs.trace.clone()));
                }
            });
            out.count("schedules", runs as u64);
            if capped {
                out.caps_hit.push(format!("scenario {:?}: stopped after {} schedules", sc.query, runs));
            }
            for (choices, sig, what, trace) in local {
                out.violation(Violation {
                    sig: format!("C11:schedule:{}", sig.clone()),
                    what: format!("failing query {:?} during force_flush, schedule {:?} (sync points {:?}): {}", sc.query, choices, trace, what),
                    weight: choices.len() as u64,
                    case: serde_json::to_value(gate::GateCase { scenario: sc.clone(), schedule: choices, expect: sig.clone() }).unwrap(),
                });
            }
        }
        crate::common::install_flush_counter();
    }

    fn replay(&self, case: &Value) -> Option<Violation> {
        if case.get("schedule").is_some() {
            let v = gate::replay_gate_case("C11", case)?;
            if v.sig.contains("query-failed") || v.sig.contains("query-not-a-prefix") {
                return None;
            }
            return Some(v);
        }
        let c: SeqCase = serde_json::from_value(case.clone()).ok()?;
        std::env::set_var("LVMC_C11_DEADLINE_MS", "30000");
        let mut tr = 0;
        let r = run_sequence(&c, &mut tr);
        r.map(|(sig, what, at)| Violation {
            sig: format!("C11:{}:{}", sig, req_name(&c.reqs[at.min(c.reqs.len() - 1)]).split('[').next().unwrap_or("")),
            what,
            weight: 1,
            case: case.clone(),
        })
    }
}
