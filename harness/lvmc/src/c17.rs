//! C17: the HTTP interface behaves like the embedded one.
//! Every request sequence up to a depth over {insert_bin(b1), insert_bin(b2)} leads to a state in
//! which every query of a fixed set goes through every query endpoint and response encoding of a
//! real server (server::run on a loopback port) and is compared with LocustDB::run_query on the
//! same Arc<LocustDB>.
use std::collections::{BTreeMap, HashSet};
use std::io::{Read, Write};
use std::net::TcpStream;
use std::sync::Arc;
use std::time::Duration;

use locustdb::{LocustDB, QueryOutput};
use locustdb_compression_utils::xor_float;
use locustdb_serialization::api::{AnyVal, Column as ApiColumn, EncodingOpts, MultiQueryRequest, MultiQueryResponse, QueryRequest};
use serde::{Deserialize, Serialize};
use serde_json::{json, Value};

use crate::c01::panic_file;
use crate::common::*;
use crate::runner::*;

pub struct C17;

/// One integer column per layout of the binary response (constant step, i8 / i16 / i32 differences, i8 / i16 / i32 second
/// differences, raw): the layout is chosen from the differences of the values.
fn layouts_table() -> TableBatch {
    let c = |v: [i64; 4]| v.iter().map(|x| ri(*x)).collect::<Vec<_>>();
    TableBatch::new("w", 4)
        .col("l_range", c([10, 11, 12, 13]))
        .col("l_d8", c([100, 105, 103, 110]))
        .col("l_dd8", c([0, 1000, 2010, 3015]))
        .col("l_d16", c([0, 1000, 500, 30000]))
        .col("l_dd16", c([1_700_000_000_000, 1_700_000_060_250, 1_700_000_120_100, 1_700_000_180_400]))
        .col("l_d32", c([0, 100_000, 50_000, 2_000_000_000]))
        .col("l_dd32", c([0, 3_000_000_000, 6_000_100_000, 9_000_100_000]))
        .col("l_raw", c([0, i64::MAX - 1, -5, 1 << 62]))
}

fn b1() -> Batch {
    let mut b = b1_t();
    b.tables.push(layouts_table());
    b
}

fn b1_t() -> Batch {
    Batch::one(
        TableBatch::new("t", 4)
            .col("id", vec![ri(1), ri(2), ri(3), ri(4)])
            .col("big", vec![ri((1 << 53) + 1), ri(i64::MIN), ri(-1), ri(i64::MAX - 1)])
            .col("f", vec![rf(0.5), rf(-0.0), rf(1e300), rf(0.1)])
            .col("s", vec![rs("a"), rs("é☃"), rs(""), rs("a")])
            .col_repr("ni", vec![ri(7), RVal::Null, ri(9), RVal::Null], Repr::SparseI64)
            .col_repr("nf", vec![RVal::Null, rf(2.5), RVal::Null, rf(-1.5)], Repr::Sparse)
            .col_repr("m", vec![ri(1), rs("x"), RVal::Null, rf(2.5)], Repr::Mixed),
    )
}

fn b2() -> Batch {
    Batch {
        tables: vec![
            TableBatch::new("t", 2)
                .col("id", vec![ri(5), ri(6)])
                .col("f", vec![rf(f64::INFINITY), rf(f64::NAN)])
                .col("s", vec![rs("zz"), rs("b")])
                .col_repr("ns", vec![rs("only"), RVal::Null], Repr::Mixed),
            TableBatch::new("u", 1).col("k", vec![ri(42)]),
        ],
    }
}

pub fn queries() -> Vec<&'static str> {
    vec![
        "SELECT id, big FROM t",
        "SELECT id, f FROM t",
        "SELECT s FROM t",
        "SELECT id, ni, nf FROM t",
        "SELECT m FROM t",
        "SELECT * FROM t",
        "SELECT s, COUNT(1), SUM(id) FROM t",
        "SELECT id FROM t WHERE id > 2 ORDER BY id DESC LIMIT 2",
        "SELECT MAX(f), MIN(ni) FROM t",
        "SELECT nosuch, id FROM t",
        "SELECT k FROM u",
        "SELECT id + 1, f * 2 FROM t",
        "SELECT l_range, l_d8, l_dd8, l_d16 FROM w",
        "SELECT l_dd16, l_d32, l_dd32, l_raw FROM w",
        // failing
        "SELEC id FROM t",
        "SELECT id FROM nosuchtable",
        "SELECT big * big FROM t",
        "SELECT s + 1 FROM t",
        "SELECT id FROM t LIMIT 1.5",
    ]
}

// ---------------------------------------------------------------------------------------------
// minimal HTTP client
// ---------------------------------------------------------------------------------------------

pub struct HttpResp {
    pub status: u16,
    pub body: Vec<u8>,
}

pub fn http_post(port: u16, path: &str, content_type: &str, body: &[u8]) -> Result<HttpResp, String> {
    // a transport hiccup (loaded machine) must not look like a missing answer: one retry
    match http_post_once(port, path, content_type, body) {
        Ok(r) => Ok(r),
        Err(_) => {
            std::thread::sleep(Duration::from_millis(200));
            http_post_once(port, path, content_type, body)
        }
    }
}

fn http_post_once(port: u16, path: &str, content_type: &str, body: &[u8]) -> Result<HttpResp, String> {
    let mut s = TcpStream::connect(("127.0.0.1", port)).map_err(|e| format!("connect: {}", e))?;
    s.set_read_timeout(Some(Duration::from_secs(6))).ok();
    s.set_write_timeout(Some(Duration::from_secs(6))).ok();
    let head = format!(
        "POST {} HTTP/1.1\r\nHost: 127.0.0.1\r\nContent-Type: {}\r\nContent-Length: {}\r\nConnection: close\r\n\r\n",
        path,
        content_type,
        body.len()
    );
    s.write_all(head.as_bytes()).map_err(|e| format!("write: {}", e))?;
    s.write_all(body).map_err(|e| format!("write: {}", e))?;
    let mut buf = Vec::new();
    match s.read_to_end(&mut buf) {
        Ok(_) => {}
        Err(e) => {
            if buf.is_empty() {
                return Err(format!("read: {}", e));
            }
        }
    }
    let split = buf.windows(4).position(|w| w == b"\r\n\r\n").ok_or_else(|| format!("no header end in {} bytes", buf.len()))?;
    let head = String::from_utf8_lossy(&buf[..split]).to_string();
    let status: u16 = head.split_whitespace().nth(1).and_then(|s| s.parse().ok()).ok_or("no status")?;
    let mut body = buf[split + 4..].to_vec();
    if head.to_ascii_lowercase().contains("transfer-encoding: chunked") {
        // de-chunk
        let mut out = vec![];
        let mut i = 0;
        loop {
            let line_end = match body[i..].windows(2).position(|w| w == b"\r\n") {
                Some(p) => i + p,
                None => break,
            };
            let len = usize::from_str_radix(String::from_utf8_lossy(&body[i..line_end]).trim(), 16).unwrap_or(0);
            if len == 0 {
                break;
            }
            let start = line_end + 2;
            if start + len > body.len() {
                break;
            }
            out.extend_from_slice(&body[start..start + len]);
            i = start + len + 2;
        }
        body = out;
    }
    Ok(HttpResp { status, body })
}

// ---------------------------------------------------------------------------------------------

#[derive(Clone, Debug, Serialize, Deserialize)]
pub struct C17Case {
    /// inserts leading to the state (1 = b1, 2 = b2)
    pub inserts: Vec<u8>,
    pub query: String,
    pub endpoint: String,
}

pub const ENDPOINTS: [&str; 5] = ["query", "query_cols", "multi_json", "multi_bin", "multi_bin_xor"];

struct Server {
    db: Arc<LocustDB>,
    port: u16,
    handle: actix_web::dev::ServerHandle,
    rt: tokio::runtime::Runtime,
}

fn start_server() -> Result<Server, String> {
    let opts = DbOpts { on_disk: false, threads: 2, ..DbOpts::default() }.to_options(None);
    let db = Arc::new(LocustDB::new(&opts));
    let base = 20000 + (std::process::id() % 20000) as u16;
    for k in 0..50u16 {
        let port = base.wrapping_add(k * 7) % 40000 + 20000;
        match locustdb::server::run(db.clone(), false, vec![], format!("127.0.0.1:{}", port)) {
            Ok((handle, _rx)) => {
                let rt = tokio::runtime::Builder::new_current_thread().enable_all().build().unwrap();
                // wait until it accepts
                for _ in 0..100 {
                    if TcpStream::connect(("127.0.0.1", port)).is_ok() {
                        return Ok(Server { db, port, handle, rt });
                    }
                    std::thread::sleep(Duration::from_millis(20));
                }
                return Err("server does not accept connections".into());
            }
            Err(_) => continue,
        }
    }
    Err("no free port".into())
}

impl Server {
    fn stop(self) {
        let h = self.handle.clone();
        self.rt.block_on(async move {
            let _ = tokio::time::timeout(Duration::from_secs(3), h.stop(false)).await;
        });
    }
}

type Cols = BTreeMap<String, Vec<RVal>>;

fn output_cols(o: &QueryOutput) -> (Vec<String>, Cols) {
    let n = normalize_output(o);
    (n.colnames.clone(), n.cols.into_iter().collect())
}

fn json_cell(v: &Value) -> RVal {
    match v {
        Value::Null => RVal::Null,
        Value::Number(n) => {
            if let Some(i) = n.as_i64() {
                ri(i)
            } else if let Some(f) = n.as_f64() {
                rf(f)
            } else {
                RVal::Null
            }
        }
        Value::String(s) => rs(s),
        other => rs(&format!("<json {}>", other)),
    }
}

/// JSON cannot carry non-finite floats (serde_json writes null).
fn json_equal(want: &RVal, got: &RVal) -> bool {
    match (want, got) {
        (RVal::Float(b), _) if !f64::from_bits(*b).is_finite() => true,
        (RVal::Float(b), RVal::Int(i)) => f64::from_bits(*b) == *i as f64,
        (RVal::Float(a), RVal::Float(b)) => a == b || f64::from_bits(*a) == f64::from_bits(*b),
        _ => want == got,
    }
}

fn api_cols(c: &ApiColumn) -> Result<Vec<RVal>, String> {
    Ok(match c {
        ApiColumn::Int(x) => x.iter().map(|i| ri(*i)).collect(),
        ApiColumn::Float(x) => x.iter().map(|f| if f.to_bits() == xor_float::NULL.to_bits() { RVal::Null } else { rf(*f) }).collect(),
        ApiColumn::String(x) => x.iter().map(|s| rs(s)).collect(),
        ApiColumn::Null(n) => vec![RVal::Null; *n],
        ApiColumn::Mixed(x) => x
            .iter()
            .map(|a| match a {
                AnyVal::Int(i) => ri(*i),
                AnyVal::Float(f) => rf(*f),
                AnyVal::Str(s) => rs(s),
                AnyVal::Null => RVal::Null,
            })
            .collect(),
        ApiColumn::Xor(bytes) => xor_float::double::decode(bytes)
            .map_err(|e| format!("xor decode: {:?}", e))?
            .iter()
            .map(|f| if f.to_bits() == xor_float::NULL.to_bits() { RVal::Null } else { rf(*f) })
            .collect(),
    })
}

/// Runs one query through one endpoint and compares with the embedded answer.
fn check_one(srv: &Server, q: &str, endpoint: &str) -> (String, Option<(String, String)>) {
    let embedded = srv.rt.block_on(srv.db.run_query(q, false, true, vec![]));
    let _ = take_panics();
    let (path, ctype, body): (&str, &str, Vec<u8>) = match endpoint {
        "query" => ("/query", "application/json", serde_json::to_vec(&QueryRequest { query: q.to_string() }).unwrap()),
        "query_cols" => ("/query_cols", "application/json", serde_json::to_vec(&QueryRequest { query: q.to_string() }).unwrap()),
        "multi_json" => ("/multi_query_cols", "application/json", serde_json::to_vec(&MultiQueryRequest { queries: vec![q.to_string()], encoding_opts: None }).unwrap()),
        "multi_bin" => (
            "/multi_query_cols",
            "application/json",
            serde_json::to_vec(&MultiQueryRequest { queries: vec![q.to_string()], encoding_opts: Some(EncodingOpts { xor_float_compression: false, mantissa: None, full_precision_cols: HashSet::new() }) }).unwrap(),
        ),
        _ => (
            "/multi_query_cols",
            "application/json",
            serde_json::to_vec(&MultiQueryRequest { queries: vec![q.to_string()], encoding_opts: Some(EncodingOpts { xor_float_compression: true, mantissa: None, full_precision_cols: HashSet::new() }) }).unwrap(),
        ),
    };
    let resp = http_post(srv.port, path, ctype, &body);
    let panics = take_panics();
    let site = panics.first().map(panic_file).unwrap_or_default();
    let resp = match resp {
        Ok(r) => r,
        Err(e) => {
            return (
                "no-http-response".into(),
                Some((format!("no-response:{}:{}", endpoint, site), format!("{} via {}: no HTTP response ({}); embedded answer: {}; panics {:?}", q, endpoint, e, if embedded.is_ok() { "rows" } else { "error" }, panics.iter().map(|p| &p.message).collect::<Vec<_>>()))),
            )
        }
    };
    match embedded {
        Err(e) => {
            if resp.status >= 400 {
                (format!("error-status-{}", resp.status), None)
            } else {
                (
                    "error-as-success".into(),
                    Some((format!("failing-query-status-{}:{}", resp.status, endpoint), format!("{} via {}: embedded API fails with {}, HTTP status {}", q, endpoint, e, resp.status))),
                )
            }
        }
        Ok(out) => {
            if resp.status != 200 {
                return (
                    "success-as-error".into(),
                    Some((format!("good-query-status-{}:{}", resp.status, endpoint), format!("{} via {}: embedded API answers, HTTP status {} body {:?}", q, endpoint, resp.status, String::from_utf8_lossy(&resp.body).chars().take(200).collect::<String>()))),
                );
            }
            let (names, cols) = output_cols(&out);
            let rows: Vec<Vec<RVal>> = out.rows.as_ref().map(|r| r.iter().map(|x| x.iter().map(RVal::from_raw).collect()).collect()).unwrap_or_default();
            let mismatch = |what: String| (("differs".to_string()), Some((format!("differs:{}:{}", endpoint, what.split(':').next().unwrap_or("")), format!("{} via {}: {}", q, endpoint, what))));
            match endpoint {
                "query" => {
                    let v: Value = match serde_json::from_slice(&resp.body) {
                        Ok(v) => v,
                        Err(e) => return mismatch(format!("bad-json: {}", e)),
                    };
                    let got_names: Vec<String> = v["colnames"].as_array().map(|a| a.iter().map(|x| x.as_str().unwrap_or("").to_string()).collect()).unwrap_or_default();
                    if got_names != names {
                        return mismatch(format!("colnames: {:?} vs embedded {:?}", got_names, names));
                    }
                    let got_rows: Vec<Vec<RVal>> = v["rows"].as_array().map(|a| a.iter().map(|r| r.as_array().map(|c| c.iter().map(json_cell).collect()).unwrap_or_default()).collect()).unwrap_or_default();
                    if got_rows.len() != rows.len() {
                        return mismatch(format!("rowcount: {} vs embedded {}", got_rows.len(), rows.len()));
                    }
                    for (i, (g, w)) in got_rows.iter().zip(&rows).enumerate() {
                        if g.len() != w.len() || !g.iter().zip(w).all(|(a, b)| json_equal(b, a)) {
                            return mismatch(format!("values: row {} is {:?}, embedded {:?}", i, g, w));
                        }
                    }
                    ("same".into(), None)
                }
                "query_cols" | "multi_json" => {
                    let v: Value = match serde_json::from_slice(&resp.body) {
                        Ok(v) => v,
                        Err(e) => return mismatch(format!("bad-json: {}", e)),
                    };
                    let v = if endpoint == "multi_json" { v.get(0).cloned().unwrap_or(Value::Null) } else { v };
                    let got_names: Vec<String> = v["colnames"].as_array().map(|a| a.iter().map(|x| x.as_str().unwrap_or("").to_string()).collect()).unwrap_or_default();
                    if got_names != names {
                        return mismatch(format!("colnames: {:?} vs embedded {:?}", got_names, names));
                    }
                    for (name, want) in &cols {
                        let got: Vec<RVal> = match &v["cols"][name] {
                            Value::Array(a) => a.iter().map(json_cell).collect(),
                            Value::Number(n) => vec![RVal::Null; n.as_u64().unwrap_or(0) as usize],
                            other => return mismatch(format!("column-missing: {} is {}", name, other)),
                        };
                        if got.len() != want.len() || !got.iter().zip(want).all(|(a, b)| json_equal(b, a)) {
                            return mismatch(format!("values: column {} is {:?}, embedded {:?}", name, got, want));
                        }
                    }
                    ("same".into(), None)
                }
                _ => {
                    let r = match MultiQueryResponse::deserialize(&resp.body) {
                        Ok(r) => r,
                        Err(e) => return mismatch(format!("bad-binary: {}", e)),
                    };
                    if r.responses.len() != 1 {
                        return mismatch(format!("responses: {}", r.responses.len()));
                    }
                    let got = &r.responses[0].columns;
                    if got.len() != cols.len() {
                        return mismatch(format!("column-count: {} vs embedded {}", got.len(), cols.len()));
                    }
                    for (name, want) in &cols {
                        let g = match got.get(name) {
                            Some(c) => match api_cols(c) {
                                Ok(v) => v,
                                Err(e) => return mismatch(format!("bad-column: {} {}", name, e)),
                            },
                            None => return mismatch(format!("column-missing: {}", name)),
                        };
                        if g != *want {
                            return mismatch(format!("values: column {} is {:?}, embedded {:?}", name, g, want));
                        }
                    }
                    ("same".into(), None)
                }
            }
        }
    }
}

fn states(tier: Tier) -> Vec<Vec<u8>> {
    let depth = if tier == Tier::Quick { 2 } else { 3 };
    let mut out = vec![vec![]];
    let mut frontier: Vec<Vec<u8>> = vec![vec![]];
    for _ in 0..depth {
        let mut next = vec![];
        for s in &frontier {
            for b in [1u8, 2] {
                let mut t = s.clone();
                t.push(b);
                next.push(t);
            }
        }
        out.extend(next.iter().cloned());
        frontier = next;
    }
    out
}

fn reach(inserts: &[u8]) -> Result<Server, (String, String)> {
    let srv = start_server().map_err(|e| ("server-start".to_string(), e))?;
    for b in inserts {
        let batch = if *b == 1 { b1() } else { b2() };
        let bytes = wire_bytes(&batch);
        match http_post(srv.port, "/insert_bin", "application/octet-stream", &bytes) {
            Ok(r) if r.status == 200 => {}
            Ok(r) => {
                let e = (format!("insert-status-{}", r.status), format!("insert_bin answered {} {:?}", r.status, String::from_utf8_lossy(&r.body)));
                srv.stop();
                return Err(e);
            }
            Err(e) => {
                let panics = take_panics();
                let e = (format!("insert-no-response:{}", panics.first().map(panic_file).unwrap_or_default()), format!("insert_bin: {}; panics {:?}", e, panics.iter().map(|p| &p.message).collect::<Vec<_>>()));
                srv.stop();
                return Err(e);
            }
        }
    }
    Ok(srv)
}

impl Engine for C17 {
    fn property(&self) -> &'static str {
        "C17"
    }

    fn describe(&self, tier: Tier) -> Describe {
        Describe {
            level: "model_checking",
            rule: format!("states = every sequence of 0..{} insert_bin requests over two batches (b1: ints beyond 2^53 and at the i64 limits, -0.0, 1e300, unicode and empty strings, sparse nullable int / float, a mixed column, and a table with one integer column per layout of the binary response - constant step, i8 / i16 / i32 differences, i8 / i16 / i32 second differences, raw; b2: a request touching two tables with infinite / NaN floats and a nullable string) sent to a real server started with server::run on a loopback port; in every state every query of a set of 19 (14 answerable: the response-layout columns, plain, nullable, mixed, SELECT *, grouped, ordered + limited, aggregates, unknown column, second table, expressions; 5 failing: syntax error, unknown table, overflow, type error, fractional LIMIT) goes through /query, /query_cols, /multi_query_cols (JSON), /multi_query_cols binary without and with xor float compression and is compared with LocustDB::run_query on the same Arc<LocustDB>: same names, order and values (non-finite floats excepted in JSON); a failing query must give status >= 400 and the next request must be answered. Non-trivial: state with at least one insert; distinct by (state, query, endpoint).", if tier == Tier::Quick { 2 } else { 3 }),
            assumptions: vec!["the embedded answer is the reference: a wrong answer shared by both interfaces is the business of other properties".into(), "mantissa reduction is checked at codec level in C16".into()],
            bounds: json!({"states": states(tier).len(), "queries": queries().len(), "endpoints": ENDPOINTS}),
            states_meaning: "distinct (insert history, query, endpoint) triples compared",
        }
    }

    fn run_shard(&self, tier: Tier, shard: usize, nshards: usize, out: &mut ShardResult) {
        for (si, st) in states(tier).iter().enumerate() {
            if si % nshards != shard {
                continue;
            }
            let mut srv = match reach(st) {
                Ok(s) => s,
                Err((sig, what)) => {
                    out.violation(Violation { sig: format!("C17:{}", sig), what: format!("inserts {:?}: {}", st, what), weight: st.len() as u64, case: serde_json::to_value(C17Case { inserts: st.clone(), query: String::new(), endpoint: String::new() }).unwrap() });
                    continue;
                }
            };
            out.transitions += st.len() as u64;
            for q in queries() {
                for ep in ENDPOINTS {
                    out.evaluations += 1;
                    out.transitions += 2;
                    let h = hash64(format!("{:?}|{}|{}", st, q, ep).as_bytes());
                    out.states.insert(h);
                    if !st.is_empty() {
                        out.nontrivial.insert(h);
                    }
                    let (class, bad) = check_one(&srv, q, ep);
                    out.outcome(&format!("{}:{}", ep, class));
                    if out.samples.len() < 3 && class == "same" && !st.is_empty() && q.len() > 25 {
                        out.sample(json!({"inserts": st, "query": q, "endpoint": ep}));
                    }
                    if let Some((sig, what)) = bad {
                        if std::env::var("LVMC_TRACE").is_ok() {
                            eprintln!("[trace] {} :: {}", sig, what);
                        }
                        out.violation(Violation {
                            sig: format!("C17:{}", sig),
                            what: format!("after inserts {:?}: {}", st, what),
                            weight: st.len() as u64 * 100 + q.len() as u64,
                            case: serde_json::to_value(C17Case { inserts: st.clone(), query: q.to_string(), endpoint: ep.to_string() }).unwrap(),
                        });
                        // the server must keep answering: canary
                        let canary = http_post(srv.port, "/query_cols", "application/json", &serde_json::to_vec(&QueryRequest { query: "SELECT k FROM nosuchtable".into() }).unwrap());
                        if canary.is_err() {
                            out.violation(Violation {
                                sig: format!("C17:server-dead-after:{}", ep),
                                what: format!("after {} via {} the server no longer answers", q, ep),
                                weight: 1,
                                case: serde_json::to_value(C17Case { inserts: st.clone(), query: q.to_string(), endpoint: ep.to_string() }).unwrap(),
                            });
                            srv.stop();
                            srv = match reach(st) {
                                Ok(s) => s,
                                Err(_) => return,
                            };
                        }
                    }
                }
            }
            srv.stop();
        }
    }

    fn replay(&self, case: &Value) -> Option<Violation> {
        let c: C17Case = serde_json::from_value(case.clone()).ok()?;
        let srv = match reach(&c.inserts) {
            Ok(s) => s,
            Err((sig, what)) => return Some(Violation { sig: format!("C17:{}", sig), what, weight: 1, case: case.clone() }),
        };
        let (_, bad) = check_one(&srv, &c.query, &c.endpoint);
        srv.stop();
        bad.map(|(sig, what)| Violation { sig: format!("C17:{}", sig), what, weight: 1, case: case.clone() })
    }
}
