//! E-codec: component-level products and fault enumeration.
//! C14: stored files read back as written or are rejected. C16: client/server encodings are lossless.
use std::collections::{BTreeMap, BTreeSet, HashMap};
use std::path::PathBuf;

use locustdb::verif::{
    BlobWriter, Column, DataSource, FileBlobWriter, MetaStore, PartitionMetadata, PartitionSegment, SimpleTracer,
    SubpartitionMetadata, VersionedChecksummedBlobWriter, WalSegment,
};
use locustdb_compression_utils::xor_float;
use locustdb_serialization::api::{AnyVal, Column as ApiColumn, QueryResponse};
use locustdb_serialization::event_buffer::{ColumnData, EventBuffer};
use serde::{Deserialize, Serialize};
use serde_json::{json, Value};

use crate::c01::{panic_file, NullPat, Push};
use crate::common::*;
use crate::runner::*;

// =============================================================================================
// C16
// =============================================================================================

pub struct C16;

#[derive(Clone, Debug, Serialize, Deserialize)]
pub enum C16Case {
    Ints(Vec<i64>),
    /// bits, regret, mantissa
    Floats(Vec<u64>, u32, Option<u32>),
    Event(Batch, IngestPath),
    Response(Vec<(String, Vec<RVal>)>),
}

const INT_ALPHA: [i64; 17] = [
    0,
    1,
    -1,
    127,
    128,
    129,
    -128,
    -129,
    32767,
    32768,
    (1 << 31) - 1,
    1 << 31,
    1 << 62,
    -(1 << 62),
    i64::MIN,
    i64::MAX,
    i64::MIN + 1,
];

fn diff_structured_ints() -> Vec<Vec<i64>> {
    let firsts = [0i64, 1_700_000_000_000];
    let ds = [0i64, 1, 127, 128, 1000, 32767, 32768, 60_000, (1 << 31) - 1, 1 << 31, 3_000_000_000];
    let dds = [0i64, 1, -1, 127, 128, -128, -129, 300, -400, 32767, 32768, -32768, -32769, 100_000, (1 << 31) - 1, 1 << 31, -(1 << 31) - 1];
    let mut v = vec![];
    for x0 in firsts {
        for d in ds {
            for dd1 in dds {
                for dd2 in dds {
                    let x1 = x0 + d;
                    let x2 = x1 + d + dd1;
                    let x3 = x2 + d + dd1 + dd2;
                    v.push(vec![x0, x1, x2, x3]);
                }
            }
        }
    }
    v
}

fn float_alpha() -> Vec<u64> {
    vec![
        0.0f64.to_bits(),
        (-0.0f64).to_bits(),
        1.0f64.to_bits(),
        1.0f64.to_bits() + 1, // next after 1.0
        (-1.0f64).to_bits(),
        f64::INFINITY.to_bits(),
        f64::NEG_INFINITY.to_bits(),
        f64::NAN.to_bits(),
        0x7ff8_0000_dead_beef, // NaN payload
        0x7ffa_aaaa_aaaa_aaaa, // the reserved NULL NaN
        (f64::MIN_POSITIVE / 8.0).to_bits(), // subnormal
        f64::MAX.to_bits(),
        0.1f64.to_bits(),
    ]
}

fn check_ints(xs: &[i64]) -> Option<(String, String)> {
    let xs2 = xs.to_vec();
    let r = std::panic::catch_unwind(move || {
        let resp = QueryResponse {
            columns: HashMap::from([("c".to_string(), ApiColumn::Int(xs2))]),
        };
        let bytes = resp.serialize();
        QueryResponse::deserialize(&bytes).map(|r| r.columns)
    });
    let panics = take_panics();
    match r {
        Err(_) => Some((
            format!("ints:panic:{}:{}", panics.first().map(panic_file).unwrap_or_default(), panics.first().map(|p| crate::c03::norm_msg(&p.message)).unwrap_or_default()),
            format!("serializing the integer column {:?} panicked: {:?}", xs, panics.first().map(|p| &p.message)),
        )),
        Ok(Err(e)) => Some(("ints:decode-error".into(), format!("integer column {:?}: decode error {}", xs, e))),
        Ok(Ok(cols)) => match cols.get("c") {
            Some(ApiColumn::Int(ys)) if ys[..] == xs[..] => None,
            Some(ApiColumn::Null(0)) if xs.is_empty() => None,
            other => Some((
                format!("ints:differs:len{}", xs.len().min(6)),
                format!("integer column {:?} decodes to {:?}", xs, other),
            )),
        },
    }
}

fn check_floats(bits: &[u64], regret: u32, mantissa: Option<u32>) -> Option<(String, String)> {
    let fs: Vec<f64> = bits.iter().map(|b| f64::from_bits(*b)).collect();
    let fs2 = fs.clone();
    let r = std::panic::catch_unwind(move || {
        let enc = xor_float::double::encode(&fs2, regret, mantissa);
        xor_float::double::decode(&enc)
    });
    let panics = take_panics();
    let desc = || format!("floats {:?} (bits {:x?}) regret={} mantissa={:?}", fs, bits, regret, mantissa);
    match r {
        Err(_) => Some((
            format!("floats:panic:{}", panics.first().map(panic_file).unwrap_or_default()),
            format!("{}: panicked: {:?}", desc(), panics.first().map(|p| &p.message)),
        )),
        Ok(Err(e)) => Some(("floats:decode-error".into(), format!("{}: decode error {:?}", desc(), e))),
        Ok(Ok(ys)) => {
            if ys.len() != fs.len() {
                return Some(("floats:length".into(), format!("{}: decoded {} values", desc(), ys.len())));
            }
            let mask: u64 = match mantissa {
                None => u64::MAX,
                Some(m) => u64::MAX - ((1u64 << (52 - m)) - 1),
            };
            for i in 0..fs.len() {
                if (ys[i].to_bits() & mask) != (bits[i] & mask) {
                    return Some((
                        format!("floats:differs:mantissa={}", if mantissa.is_some() { "reduced" } else { "full" }),
                        format!("{}: value {} decodes to bits {:016x}, sent {:016x} (mask {:016x})", desc(), i, ys[i].to_bits(), bits[i], mask),
                    ));
                }
            }
            None
        }
    }
}

fn column_data_eq(a: &ColumnData, b: &ColumnData) -> bool {
    let fb = |x: &f64| x.to_bits();
    match (a, b) {
        (ColumnData::Empty, ColumnData::Empty) => true,
        (ColumnData::Dense(x), ColumnData::Dense(y)) => x.iter().map(fb).eq(y.iter().map(fb)),
        (ColumnData::Sparse(x), ColumnData::Sparse(y)) => x.len() == y.len() && x.iter().zip(y).all(|(p, q)| p.0 == q.0 && p.1.to_bits() == q.1.to_bits()),
        (ColumnData::I64(x), ColumnData::I64(y)) => x == y,
        (ColumnData::SparseI64(x), ColumnData::SparseI64(y)) => x == y,
        (ColumnData::String(x), ColumnData::String(y)) => x == y,
        (ColumnData::Mixed(x), ColumnData::Mixed(y)) => {
            x.len() == y.len()
                && x.iter().zip(y).all(|(p, q)| match (p, q) {
                    (AnyVal::Int(a), AnyVal::Int(b)) => a == b,
                    (AnyVal::Float(a), AnyVal::Float(b)) => a.to_bits() == b.to_bits(),
                    (AnyVal::Str(a), AnyVal::Str(b)) => a == b,
                    (AnyVal::Null, AnyVal::Null) => true,
                    _ => false,
                })
        }
        _ => false,
    }
}

fn event_buffer_eq(a: &EventBuffer, b: &EventBuffer) -> Option<String> {
    if a.tables.len() != b.tables.len() {
        return Some(format!("{} tables vs {}", a.tables.len(), b.tables.len()));
    }
    for (name, ta) in &a.tables {
        let tb = match b.tables.get(name) {
            Some(t) => t,
            None => return Some(format!("table {} missing", name)),
        };
        if ta.len() != tb.len() {
            return Some(format!("table {}: length {} vs {}", name, ta.len(), tb.len()));
        }
        let ca: BTreeMap<_, _> = ta.columns().collect();
        let cb: BTreeMap<_, _> = tb.columns().collect();
        if ca.keys().collect::<Vec<_>>() != cb.keys().collect::<Vec<_>>() {
            return Some(format!("table {}: columns {:?} vs {:?}", name, ca.keys(), cb.keys()));
        }
        for (c, da) in &ca {
            if !column_data_eq(&da.data, &cb[c].data) {
                return Some(format!("table {} column {}: {:?} vs {:?}", name, c, da.data, cb[c].data));
            }
        }
    }
    None
}

/// The logical content an event buffer denotes (rows x columns), for comparing across paths.
fn event_buffer_content(e: &EventBuffer) -> BTreeMap<String, (usize, BTreeMap<String, Vec<RVal>>)> {
    let mut out = BTreeMap::new();
    for (name, t) in &e.tables {
        let n = t.len();
        let mut cols = BTreeMap::new();
        for (c, d) in t.columns() {
            let mut v = vec![RVal::Null; n];
            match &d.data {
                ColumnData::Empty => {}
                ColumnData::Dense(x) => x.iter().enumerate().for_each(|(i, f)| v[i] = rf(*f)),
                ColumnData::Sparse(x) => x.iter().for_each(|(i, f)| v[*i as usize] = rf(*f)),
                ColumnData::I64(x) => x.iter().enumerate().for_each(|(i, f)| v[i] = ri(*f)),
                ColumnData::SparseI64(x) => x.iter().for_each(|(i, f)| v[*i as usize] = ri(*f)),
                ColumnData::String(x) => x.iter().enumerate().for_each(|(i, f)| v[i] = rs(f)),
                ColumnData::Mixed(x) => x.iter().enumerate().for_each(|(i, a)| {
                    v[i] = match a {
                        AnyVal::Int(i) => ri(*i),
                        AnyVal::Float(f) => rf(*f),
                        AnyVal::Str(s) => rs(s),
                        AnyVal::Null => RVal::Null,
                    }
                }),
            }
            cols.insert(c.clone(), v);
        }
        out.insert(name.clone(), (n, cols));
    }
    out
}

fn check_event(batch: &Batch, path: IngestPath) -> Option<(String, String)> {
    let b2 = batch.clone();
    let r = std::panic::catch_unwind(move || {
        let eb = build_event_buffer(&b2, path);
        let bytes = eb.serialize();
        let back = EventBuffer::deserialize(&bytes);
        (eb, back)
    });
    let panics = take_panics();
    match r {
        Err(_) => Some((
            format!("event:panic:{:?}:{}", path, panics.first().map(panic_file).unwrap_or_default()),
            format!("{:?} via {:?} panicked: {:?}", batch, path, panics.first().map(|p| &p.message)),
        )),
        Ok((_, Err(e))) => Some((format!("event:decode-error:{:?}", path), format!("{:?}: {}", batch, e))),
        Ok((eb, Ok(back))) => {
            if let Some(d) = event_buffer_eq(&eb, &back) {
                return Some((format!("event:roundtrip-differs:{:?}", path), format!("{:?}: {}", batch, d)));
            }
            // the decoded message must denote the rows that were handed in
            let content = event_buffer_content(&back);
            for tb in &batch.tables {
                let (n, cols) = match content.get(&tb.table) {
                    Some(x) => x,
                    None => return Some((format!("event:table-missing:{:?}", path), format!("{:?}", batch))),
                };
                if *n != tb.rows {
                    return Some((format!("event:row-count:{:?}", path), format!("{:?}: table {} has {} rows after decoding", batch, tb.table, n)));
                }
                for c in &tb.cols {
                    let want: Vec<RVal> = c.vals.clone();
                    let got = cols.get(&c.name).cloned().unwrap_or_else(|| vec![RVal::Null; tb.rows]);
                    // the row API widens int to float inside a float column
                    let same = want.len() == got.len()
                        && want.iter().zip(&got).all(|(w, g)| w == g || matches!((w, g), (RVal::Int(i), RVal::Float(f)) if (*i as f64).to_bits() == *f));
                    if !same {
                        return Some((format!("event:values:{:?}", path), format!("{:?}: column {} decodes to {:?}", batch, c.name, got)));
                    }
                }
            }
            None
        }
    }
}

fn event_batches() -> Vec<Batch> {
    // every table of <= 3 rows x <= 2 columns over the value alphabet
    let alpha: Vec<RVal> = vec![RVal::Null, ri(0), ri(i64::MIN), ri(i64::MAX), rf(-0.0), rf(f64::NAN), rf(1.5), rs(""), rs("é")];
    let mut cols: Vec<Vec<RVal>> = vec![];
    for n in 1..=3usize {
        let mut idx = vec![0usize; n];
        loop {
            cols.push(idx.iter().map(|i| alpha[*i].clone()).collect());
            let mut k = 0;
            loop {
                idx[k] += 1;
                if idx[k] < alpha.len() {
                    break;
                }
                idx[k] = 0;
                k += 1;
                if k == n {
                    break;
                }
            }
            if k == n {
                break;
            }
        }
    }
    let mut out = vec![];
    // single columns: all; pairs: each column with a partner chosen in rotation
    for (i, c) in cols.iter().enumerate() {
        let n = c.len();
        out.push(Batch::one(TableBatch::new("t", n).col("timestamp", (0..n).map(|i| rf(i as f64)).collect()).col("c", c.clone())));
        let partner = cols.iter().filter(|d| d.len() == n).nth((i * 7) % alpha.len().pow(n as u32)).unwrap();
        out.push(Batch::one(TableBatch::new("t", n).col("timestamp", (0..n).map(|i| rf(i as f64)).collect()).col("c", c.clone()).col("d", partner.clone())));
    }
    out
}

fn response_cases() -> Vec<Vec<(String, Vec<RVal>)>> {
    vec![
        vec![("a".into(), vec![ri(1), ri(2), ri(3)]), ("b".into(), vec![rf(0.5), rf(f64::NAN), rf(-0.0)])],
        vec![("s".into(), vec![rs(""), rs("é"), rs("x")]), ("m".into(), vec![RVal::Null, ri(i64::MIN), rs("q")])],
        vec![("n".into(), vec![RVal::Null, RVal::Null])],
        vec![("e".into(), vec![])],
        vec![("i".into(), vec![ri(i64::MAX), ri(i64::MIN), ri(0)]), ("j".into(), vec![ri(5)])],
    ]
}

fn check_response(cols: &[(String, Vec<RVal>)]) -> Option<(String, String)> {
    let mk = |vals: &Vec<RVal>| -> ApiColumn {
        if vals.iter().all(|v| v.is_null()) {
            ApiColumn::Null(vals.len())
        } else if vals.iter().all(|v| matches!(v, RVal::Int(_))) {
            ApiColumn::Int(vals.iter().map(|v| if let RVal::Int(i) = v { *i } else { 0 }).collect())
        } else if vals.iter().all(|v| matches!(v, RVal::Float(_))) {
            ApiColumn::Float(vals.iter().map(|v| v.f().unwrap()).collect())
        } else if vals.iter().all(|v| matches!(v, RVal::Str(_))) {
            ApiColumn::String(vals.iter().map(|v| if let RVal::Str(s) = v { s.clone() } else { String::new() }).collect())
        } else {
            ApiColumn::Mixed(vals.iter().map(|v| v.to_anyval()).collect())
        }
    };
    let cols2 = cols.to_vec();
    let r = std::panic::catch_unwind(move || {
        let resp = QueryResponse {
            columns: cols2.iter().map(|(n, v)| (n.clone(), mk(v))).collect(),
        };
        QueryResponse::deserialize(&resp.serialize()).map(|r| r.columns)
    });
    let panics = take_panics();
    match r {
        Err(_) => Some((format!("response:panic:{}", panics.first().map(panic_file).unwrap_or_default()), format!("{:?}: {:?}", cols, panics.first().map(|p| &p.message)))),
        Ok(Err(e)) => Some(("response:decode-error".into(), format!("{:?}: {}", cols, e))),
        Ok(Ok(back)) => {
            for (n, vals) in cols {
                let got: Vec<RVal> = match back.get(n) {
                    Some(ApiColumn::Int(x)) => x.iter().map(|i| ri(*i)).collect(),
                    Some(ApiColumn::Float(x)) => x.iter().map(|f| rf(*f)).collect(),
                    Some(ApiColumn::String(x)) => x.iter().map(|s| rs(s)).collect(),
                    Some(ApiColumn::Null(k)) => vec![RVal::Null; *k],
                    Some(ApiColumn::Mixed(x)) => x
                        .iter()
                        .map(|a| match a {
                            AnyVal::Int(i) => ri(*i),
                            AnyVal::Float(f) => rf(*f),
                            AnyVal::Str(s) => rs(s),
                            AnyVal::Null => RVal::Null,
                        })
                        .collect(),
                    other => return Some(("response:column-missing".into(), format!("{:?}: column {} decodes to {:?}", cols, n, other.map(|_| "xor")))),
                };
                if got != *vals {
                    return Some(("response:differs".into(), format!("{:?}: column {} decodes to {:?}", cols, n, got)));
                }
            }
            None
        }
    }
}

fn seqs<T: Clone>(alpha: &[T], max_len: usize) -> Vec<Vec<T>> {
    let mut out: Vec<Vec<T>> = vec![vec![]];
    let mut frontier: Vec<Vec<T>> = vec![vec![]];
    for _ in 0..max_len {
        let mut next = vec![];
        for s in &frontier {
            for a in alpha {
                let mut t = s.clone();
                t.push(a.clone());
                next.push(t);
            }
        }
        out.extend(next.iter().cloned());
        frontier = next;
    }
    out
}

impl Engine for C16 {
    fn property(&self) -> &'static str {
        "C16"
    }

    fn describe(&self, tier: Tier) -> Describe {
        let (il, fl_) = if tier == Tier::Quick { (4, 3) } else { (5, 4) };
        Describe {
            level: "model_checking",
            rule: format!("(1) every i64 sequence of length 0..{} over 17 values (0, +-1, the i8 / i16 / i32 delta boundaries, +-2^62, i64::MIN, i64::MIN+1, i64::MAX - so that deltas and second differences fall on every side of the layout thresholds and overflow i64), plus every length-4 sequence built from its differences (2 first values x 11 first differences x 17 x 17 second differences at the i8 / i16 / i32 boundaries: 6 358 sequences, every layout selected with values whose differences are NOT themselves boundary values), through QueryResponse::serialize / deserialize; (2) every f64 sequence of length 0..{} over 13 bit patterns (+-0, 1, next-after-1, -1, +-inf, two NaN payloads, the reserved NULL NaN, subnormal, f64::MAX, 0.1) x max_regret {{0,1,100}} x mantissa {{None, 0, 1, 12, 23, 51, 52}} (and every mantissa 0..52 x max_regret {{0,100}} for the sequences of length <= 2) through xor_float::double encode / decode (bit exact, or sign + exponent + requested mantissa bits); (3) every table of <= 3 rows x 1 column (and 2 columns with a rotating partner) over 9 cell values through the wire schema and the row API: serialize / deserialize equal, decoded rows equal the supplied rows; (4) 5 multi-column query responses of every column kind. Non-trivial: sequences of length >= 2; distinct by case.", il, fl_),
            assumptions: vec!["the row API widens an integer pushed into a float column (documented)".into(), "server-side column typing of mixed columns is exercised by C17".into()],
            bounds: json!({"int_alphabet": INT_ALPHA.len(), "int_max_len": il, "float_alphabet": float_alpha().len(), "float_max_len": fl_, "event_batches": event_batches().len()}),
            states_meaning: "distinct encoder inputs round-tripped",
        }
    }

    fn run_shard(&self, tier: Tier, shard: usize, nshards: usize, out: &mut ShardResult) {
        let (il, fl_) = if tier == Tier::Quick { (4, 3) } else { (5, 4) };
        let mut idx = 0usize;
        let mut record = |out: &mut ShardResult, kind: &str, weight: u64, case: C16Case, bad: Option<(String, String)>, nontrivial: bool| {
            out.evaluations += 1;
            out.transitions += 2;
            let h = hash64(format!("{:?}", case).as_bytes());
            out.states.insert(h);
            if nontrivial {
                out.nontrivial.insert(h);
            }
            match bad {
                None => out.outcome(&format!("{}-ok", kind)),
                Some((sig, what)) => {
                    if std::env::var("LVMC_TRACE").is_ok() {
                        eprintln!("[trace] {} :: {}", sig, what);
                    }
                    out.outcome(&format!("{}-violation", kind));
                    out.violation(Violation {
                        sig: format!("C16:{}", sig),
                        what,
                        weight,
                        case: serde_json::to_value(&case).unwrap(),
                    });
                }
            }
        };
        for s in seqs(&INT_ALPHA, il) {
            idx += 1;
            if idx % nshards != shard {
                continue;
            }
            let bad = check_ints(&s);
            let n = s.len();
            if out.samples.len() < 1 && n == 4 {
                out.sample(json!({"int_sequence": s}));
            }
            record(out, "ints", n as u64, C16Case::Ints(s), bad, n >= 2);
        }
        // integer sequences built from their differences: first value x first difference x two second differences, each at the
        // boundaries of the i8 / i16 / i32 ranges that select the response layout
        for s in diff_structured_ints() {
            idx += 1;
            if idx % nshards != shard {
                continue;
            }
            let bad = check_ints(&s);
            record(out, "ints", s.len() as u64, C16Case::Ints(s), bad, true);
        }
        let fa = float_alpha();
        let mantissas: Vec<Option<u32>> = vec![None, Some(0), Some(1), Some(12), Some(23), Some(51), Some(52)];
        for s in seqs(&fa, fl_) {
            idx += 1;
            if idx % nshards != shard {
                continue;
            }
            for regret in [0u32, 1, 100] {
                for m in &mantissas {
                    let bad = check_floats(&s, regret, *m);
                    let n = s.len();
                    record(out, "floats", n as u64, C16Case::Floats(s.clone(), regret, *m), bad, n >= 2);
                }
            }
        }
        // every mantissa setting 0..=52 for every sequence of length <= 2
        for s in seqs(&fa, 2) {
            idx += 1;
            if idx % nshards != shard {
                continue;
            }
            for regret in [0u32, 100] {
                for m in 0..=52u32 {
                    if mantissas.contains(&Some(m)) {
                        continue;
                    }
                    let bad = check_floats(&s, regret, Some(m));
                    let n = s.len();
                    record(out, "floats", n as u64, C16Case::Floats(s.clone(), regret, Some(m)), bad, n >= 2);
                }
            }
        }
        for b in event_batches() {
            for path in [IngestPath::Wire, IngestPath::RowApi, IngestPath::Native] {
                idx += 1;
                if idx % nshards != shard {
                    continue;
                }
                if !path_applicable(&b, path) {
                    continue;
                }
                let bad = check_event(&b, path);
                if out.samples.len() < 3 && b.tables[0].rows == 3 {
                    out.sample(json!({"event_batch": b, "path": format!("{:?}", path)}));
                }
                record(out, "event", b.tables[0].rows as u64, C16Case::Event(b.clone(), path), bad, true);
            }
        }
        if shard == 0 {
            for r in response_cases() {
                let bad = check_response(&r);
                record(out, "response", 1, C16Case::Response(r), bad, true);
            }
        }
    }

    fn replay(&self, case: &Value) -> Option<Violation> {
        let c: C16Case = serde_json::from_value(case.clone()).ok()?;
        let bad = match &c {
            C16Case::Ints(s) => check_ints(s),
            C16Case::Floats(s, r, m) => check_floats(s, *r, *m),
            C16Case::Event(b, p) => check_event(b, *p),
            C16Case::Response(r) => check_response(r),
        };
        bad.map(|(sig, what)| Violation {
            sig: format!("C16:{}", sig),
            what,
            weight: 1,
            case: case.clone(),
        })
    }
}

// =============================================================================================
// C14
// =============================================================================================

pub struct C14;

#[derive(Clone, Debug, Serialize, Deserialize)]
pub enum C14Case {
    /// column built by this push sequence, through the partition file codec
    Column(Vec<Push>, bool),
    /// catalogue shape: (tables, partitions per table, sub-partitions per partition, cursor)
    Catalogue(usize, usize, usize, u64),
    Wal(Batch, u64),
    /// blob kind, fault description
    Fault(String, Fault),
    /// database level: corrupt one file of this kind
    DbFault(String, usize),
}

#[derive(Clone, Debug, Serialize, Deserialize, PartialEq, Eq)]
pub enum Fault {
    BitFlip(usize, u8),
    Truncate(usize),
    Append(Vec<u8>),
}

fn build_column(seq: &[Push], lz4: bool) -> Option<std::sync::Arc<Column>> {
    use locustdb::verif::ColumnBuffer as Builder;
    use ordered_float::OrderedFloat;
    // same construction as the C01 builder check (values do not matter here, encodings do)
    let mut b = Builder::default();
    for p in seq {
        match p {
            Push::Ints(c, n, pat) => {
                let vals = c01_values(c, *n);
                let pm = present(*pat, *n);
                b.push_ints(vals.iter().map(|v| if let RVal::Int(i) = v { *i } else { 0 }), pm.as_deref());
            }
            Push::Floats(c, n, pat) => {
                let vals = c01_values(c, *n);
                let pm = present(*pat, *n);
                b.push_floats(vals.iter().map(|v| OrderedFloat(v.f().unwrap())), pm.as_deref());
            }
            Push::Strs(c, n, pat) => {
                let vals = c01_values(c, *n);
                let pm = present(*pat, *n);
                let strs: Vec<String> = vals.iter().map(|v| if let RVal::Str(s) = v { s.clone() } else { String::new() }).collect();
                b.push_strings(strs.iter().map(|s| s.as_str()), pm.as_deref());
            }
            Push::Nulls(n) => b.push_nulls(*n),
        }
    }
    let col = b.finalize("col");
    if !lz4 {
        // undo the generic compression to cover the uncompressed section kinds as well
        let mut c = std::sync::Arc::try_unwrap(col).ok()?;
        c.lz4_or_pco_decode();
        return Some(std::sync::Arc::new(c));
    }
    Some(col)
}

fn c01_values(class: &str, n: usize) -> Vec<RVal> {
    crate::c01::values_for(class, n)
}

fn present(pat: NullPat, n: usize) -> Option<Vec<u8>> {
    crate::c01::present_for(pat, n)
}

fn column_fingerprint(c: &Column) -> String {
    let mut store = Vec::new();
    let decoded = c.decode(&mut store);
    let vals: Vec<String> = (0..decoded.len()).map(|i| format!("{:?}", decoded.get_raw(i))).collect();
    format!("{:?} || sections={:?} || values={:?}", c, c.data(), vals)
}

fn check_column(seq: &[Push], lz4: bool) -> Option<(String, String)> {
    let seq2 = seq.to_vec();
    let r = std::panic::catch_unwind(move || {
        let col = build_column(&seq2, lz4)?;
        let before = column_fingerprint(&col);
        let bytes = PartitionSegment::serialize(&[&*col]);
        let back = PartitionSegment::deserialize(&bytes);
        Some((before, back.map(|p| p.columns.iter().map(column_fingerprint).collect::<Vec<_>>()).map_err(|e| e.to_string())))
    });
    let panics = take_panics();
    match r {
        Err(_) => Some((
            format!("column:panic:{}:{}", panics.first().map(panic_file).unwrap_or_default(), panics.first().map(|p| crate::c03::norm_msg(&p.message)).unwrap_or_default()),
            format!("column built by {:?} (compressed={}): partition file codec panicked: {:?}", seq, lz4, panics.first().map(|p| &p.message)),
        )),
        Ok(None) => None,
        Ok(Some((_, Err(e)))) => Some(("column:decode-error".into(), format!("column built by {:?}: {}", seq, e))),
        Ok(Some((before, Ok(after)))) => {
            if after.len() != 1 || after[0] != before {
                Some((
                    "column:differs".into(),
                    format!("column built by {:?} (compressed={}) reads back differently:\n  written {}\n  read    {:?}", seq, lz4, before.chars().take(600).collect::<String>(), after.iter().map(|s| s.chars().take(600).collect::<String>()).collect::<Vec<_>>()),
                ))
            } else {
                None
            }
        }
    }
}

fn make_catalogue(tables: usize, parts: usize, subs: usize, cursor: u64) -> MetaStore {
    let mut ms = MetaStore::default();
    let names = ["t", "Table.Two", "é/../x"];
    for t in 0..tables {
        for p in 0..parts {
            let mut subpartitions = vec![];
            let mut by_last = BTreeMap::new();
            for s in 0..subs {
                let last = ["a", "m", "zz"][s].to_string();
                by_last.insert(last.clone(), s);
                subpartitions.push(SubpartitionMetadata {
                    size_bytes: (s as u64 + 1) * 1000 + p as u64,
                    subpartition_key: if subs == 1 { "all".to_string() } else { last.clone() },
                    last_column: last,
                    loaded: std::sync::Arc::new(std::sync::atomic::AtomicBool::new(false)),
                });
            }
            ms.insert_partition(PartitionMetadata {
                id: (p * 3 + t) as u64,
                tablename: names[t].to_string(),
                offset: p * 10,
                len: 10 + t,
                subpartitions,
                subpartitions_by_last_column: by_last,
            });
        }
    }
    ms.advance_earliest_unflushed_wal_id(cursor);
    ms
}

fn catalogue_fingerprint(ms: &MetaStore) -> String {
    let mut parts: Vec<String> = ms
        .partitions()
        .map(|p| {
            format!(
                "{}|{}|{}|{}|{:?}|{:?}",
                p.tablename,
                p.id,
                p.offset,
                p.len,
                p.subpartitions.iter().map(|s| (s.size_bytes, s.subpartition_key.clone(), s.last_column.clone())).collect::<Vec<_>>(),
                p.subpartitions_by_last_column
            )
        })
        .collect();
    parts.sort();
    format!("cursor={} {:?}", ms.earliest_uncommited_wal_id(), parts)
}

fn check_catalogue(tables: usize, parts: usize, subs: usize, cursor: u64) -> Option<(String, String)> {
    let r = std::panic::catch_unwind(move || {
        let ms = make_catalogue(tables, parts, subs, cursor);
        let before = catalogue_fingerprint(&ms);
        let bytes = ms.serialize(&mut SimpleTracer::default());
        (before, MetaStore::deserialize(&bytes).map(|m| catalogue_fingerprint(&m)).map_err(|e| e.to_string()))
    });
    let panics = take_panics();
    let desc = format!("catalogue with {} tables x {} partitions x {} sub-partitions, cursor {}", tables, parts, subs, cursor);
    match r {
        Err(_) => Some((format!("catalogue:panic:{}", panics.first().map(panic_file).unwrap_or_default()), format!("{}: {:?}", desc, panics.first().map(|p| &p.message)))),
        Ok((_, Err(e))) => Some(("catalogue:decode-error".into(), format!("{}: {}", desc, e))),
        Ok((before, Ok(after))) => {
            if before != after {
                Some(("catalogue:differs".into(), format!("{}: written {} read {}", desc, before, after)))
            } else {
                None
            }
        }
    }
}

fn check_wal(batch: &Batch, id: u64) -> Option<(String, String)> {
    let b2 = batch.clone();
    let r = std::panic::catch_unwind(move || {
        let eb = build_event_buffer(&b2, IngestPath::Wire);
        let seg = WalSegment { id, data: std::borrow::Cow::Owned(eb.clone()) };
        let bytes = seg.serialize();
        (eb, WalSegment::deserialize(&bytes).map(|s| (s.id, s.data.into_owned())).map_err(|e| e.to_string()))
    });
    let panics = take_panics();
    match r {
        Err(_) => Some((format!("wal:panic:{}", panics.first().map(panic_file).unwrap_or_default()), format!("{:?}: {:?}", batch, panics.first().map(|p| &p.message)))),
        Ok((_, Err(e))) => Some(("wal:decode-error".into(), format!("{:?}: {}", batch, e))),
        Ok((eb, Ok((id2, back)))) => {
            if id2 != id {
                return Some(("wal:id-differs".into(), format!("segment id {} reads back as {}", id, id2)));
            }
            event_buffer_eq(&eb, &back).map(|d| ("wal:differs".to_string(), format!("{:?}: {}", batch, d)))
        }
    }
}

fn blob_dir() -> PathBuf {
    let d = scratch_root().join("blobs");
    std::fs::create_dir_all(&d).unwrap();
    d
}

/// Representative payloads of each file kind.
fn blobs() -> Vec<(String, Vec<u8>)> {
    let mut out = vec![];
    let col = build_column(&[Push::Ints("u8off".into(), 9, NullPat::Alternating), Push::Ints("u16".into(), 8, NullPat::None)], true).unwrap();
    out.push(("partition-int".to_string(), PartitionSegment::serialize(&[&*col])));
    let col = build_column(&[Push::Strs("sdict".into(), 9, NullPat::First), Push::Strs("sunique".into(), 8, NullPat::None)], true).unwrap();
    let col2 = build_column(&[Push::Floats("fmix".into(), 9, NullPat::None)], true).unwrap();
    out.push(("partition-str-float".to_string(), PartitionSegment::serialize(&[&*col, &*col2])));
    out.push(("catalogue".to_string(), make_catalogue(2, 2, 2, 7).serialize(&mut SimpleTracer::default())));
    out.push(("catalogue-empty".to_string(), make_catalogue(0, 0, 1, 0).serialize(&mut SimpleTracer::default())));
    let eb = build_event_buffer(&crate::crash::batch_b(), IngestPath::Wire);
    out.push(("wal".to_string(), WalSegment { id: 3, data: std::borrow::Cow::Owned(eb) }.serialize()));
    out.push(("empty-payload".to_string(), vec![]));
    out
}

fn apply_fault(stored: &[u8], f: &Fault) -> Vec<u8> {
    let mut v = stored.to_vec();
    match f {
        Fault::BitFlip(byte, bit) => v[*byte] ^= 1 << bit,
        Fault::Truncate(len) => v.truncate(*len),
        Fault::Append(s) => v.extend_from_slice(s),
    }
    v
}

fn check_fault(kind: &str, payload: &[u8], f: &Fault) -> Option<(String, String)> {
    let w = VersionedChecksummedBlobWriter::new(Box::new(FileBlobWriter::new()));
    let path = blob_dir().join(format!("{}.blob", kind));
    w.store(&path, payload).ok()?;
    let stored = std::fs::read(&path).ok()?;
    // sanity: the untouched file reads back as written
    match w.load(&path) {
        Ok(d) if d == payload => {}
        other => return Some(("envelope:clean-roundtrip".into(), format!("{}: untouched blob reads back as {:?}", kind, other.map(|d| d.len())))),
    }
    let faulty = apply_fault(&stored, f);
    if faulty == stored {
        return None;
    }
    std::fs::write(&path, &faulty).unwrap();
    let r = std::panic::catch_unwind(std::panic::AssertUnwindSafe(|| w.load(&path).map_err(|e| e.to_string())));
    let panics = take_panics();
    let fclass = match f {
        Fault::BitFlip(b, _) => format!("bitflip-{}", if *b < 8 { "version" } else if *b < 16 { "length" } else if *b < 48 { "checksum" } else { "payload" }),
        Fault::Truncate(l) => format!("truncate-{}", if *l < 48 { "header" } else { "payload" }),
        Fault::Append(_) => "append".into(),
    };
    match r {
        Err(_) => Some((format!("envelope:panic:{}:{}", fclass, panics.first().map(panic_file).unwrap_or_default()), format!("{} with {:?}: load panicked: {:?}", kind, f, panics.first().map(|p| &p.message)))),
        Ok(Err(_)) => None,
        Ok(Ok(d)) => Some((
            format!("envelope:accepted:{}", fclass),
            format!("{} ({} stored bytes) with fault {:?} was accepted and decoded to {} bytes ({})", kind, stored.len(), f, d.len(), if d == payload { "the original payload" } else { "different data" }),
        )),
    }
}

fn faults_for(stored_len: usize, tier: Tier) -> Vec<Fault> {
    let mut v = vec![];
    for byte in 0..stored_len {
        for bit in 0..8u8 {
            if tier == Tier::Quick && byte >= 48 && (byte + bit as usize) % 4 != 0 {
                continue;
            }
            v.push(Fault::BitFlip(byte, bit));
        }
    }
    for len in 0..stored_len {
        v.push(Fault::Truncate(len));
    }
    v.push(Fault::Append(vec![0]));
    v.push(Fault::Append(vec![0xff]));
    v.push(Fault::Append(vec![0; 8]));
    v
}

/// Database level: corrupt the n-th file of a kind in a flushed database, reopen, scan.
fn check_db_fault(kind: &str, variant: usize) -> Option<(String, String)> {
    let opts = DbOpts { partition_combine_factor: 999, ..DbOpts::default() };
    let (mut db, r) = Db::open(&opts, None);
    if !matches!(r, Outcome::Ok(())) {
        return Some(("dbfault:setup".into(), r.describe()));
    }
    let a = crate::crash::batch_a();
    let b = crate::crash::batch_b();
    let _ = db.ingest_batch(&a, IngestPath::Wire);
    let _ = db.flush();
    let _ = db.ingest_batch(&b, IngestPath::Wire);
    let _ = db.close();
    let dir = db.dir.clone().unwrap();
    let mut reference = RefDb::default();
    reference.apply(&a);
    reference.apply(&b);
    let files: Vec<String> = list_files(&dir)
        .into_iter()
        .map(|(n, _)| n)
        .filter(|n| match kind {
            "meta" => n == "meta",
            "wal" => n.starts_with("wal/"),
            _ => n.ends_with(".part") && n.starts_with("tables/t/"),
        })
        .collect();
    if files.is_empty() {
        db.destroy();
        return Some(("dbfault:setup-no-file".into(), format!("no {} file in {:?}", kind, list_files(&dir))));
    }
    let file = dir.join(&files[0]);
    let mut data = std::fs::read(&file).unwrap();
    match variant {
        0 => {
            let k = data.len() - 1;
            data[k] ^= 0x01
        } // payload bit
        1 => data.truncate(data.len() / 2),
        2 => data[20] ^= 0x80, // checksum
        _ => data.extend_from_slice(&[0u8; 8]),
    }
    std::fs::write(&file, &data).unwrap();
    let _ = take_panics();
    let r = db.restart();
    let panics = take_panics();
    let result = match r {
        Outcome::Hang => Some((
            format!("dbfault:{}:open-does-not-terminate:{}", kind, panics.first().map(panic_file).unwrap_or_default()),
            format!("a corrupted {} file (variant {}) makes LocustDB::new wait forever; panics {:?}", kind, variant, panics.iter().map(|p| &p.message).collect::<Vec<_>>()),
        )),
        Outcome::Panic(_) => None, // reported
        Outcome::Ok(()) => {
            // opened: every table must read as written or fail with an error
            let mut bad = None;
            for t in ["t", "u"] {
                match db.query(&format!("SELECT * FROM {}", t)) {
                    Outcome::Ok(Ok(out)) => {
                        let rt = &reference.tables[t];
                        let cols: Vec<String> = rt.columns.iter().cloned().collect();
                        if let Some((_, what)) = crate::hist::compare_rows(rt, &cols, &out, "scan") {
                            bad = Some((format!("dbfault:{}:different-data", kind), format!("after corrupting a {} file (variant {}): {}", kind, variant, what)));
                        }
                    }
                    Outcome::Ok(Err(_)) => {}
                    Outcome::Panic(_) => {}
                    Outcome::Hang => {
                        bad = Some((format!("dbfault:{}:scan-does-not-terminate", kind), format!("query on {} after corrupting a {} file did not return", t, kind)));
                    }
                }
            }
            bad
        }
    };
    let _ = take_panics();
    db.destroy();
    result
}

impl Engine for C14 {
    fn property(&self) -> &'static str {
        "C14"
    }

    fn describe(&self, tier: Tier) -> Describe {
        Describe {
            level: "model_checking",
            rule: "(1) round trip: every column built by every push sequence of length 1..2 over the C01 push alphabet (all integer widths / offsets / delta, float, dictionary / packed / hex strings, nullable variants), with and without generic compression (LZ4 / Pco), through PartitionSegment::serialize / deserialize - compared on name, length, range, codec, sections and decoded values; every catalogue of 0..3 tables x 1..3 partitions x 1..3 sub-partitions x cursor {0,1,2^32,u64::MAX-1} through MetaStore; log segments of the C16 event batches through WalSegment; (2) faults: for 6 representative stored blobs (two partition files, two catalogues, a log segment, an empty payload) EVERY single-bit flip (quick: every bit of the 48-byte header and every fourth payload bit), EVERY truncation length and 3 appended suffixes - VersionedChecksummedBlobWriter::load must return an error; (3) database level: one corrupted file of each kind (catalogue, log segment, partition file) x 4 corruptions, then LocustDB::new + full scan must terminate with an error / panic report or return exactly the written data. Non-trivial: all cases; distinct by case.".into(),
            assumptions: vec!["a panic of LocustDB::new on a corrupted catalogue counts as a report (the process does not continue with wrong data)".into(), "sha256 collisions are not enumerated".into()],
            bounds: json!({"blobs": blobs().iter().map(|(k, b)| (k.clone(), b.len())).collect::<Vec<_>>()}),
            states_meaning: "distinct encoder inputs and distinct faulted files",
        }
    }

    fn run_shard(&self, tier: Tier, shard: usize, nshards: usize, out: &mut ShardResult) {
        let mut idx = 0usize;
        let mut record = |out: &mut ShardResult, kind: &str, weight: u64, case: C14Case, bad: Option<(String, String)>| {
            out.evaluations += 1;
            out.transitions += 2;
            let h = hash64(format!("{:?}", case).as_bytes());
            out.states.insert(h);
            out.nontrivial.insert(h);
            match bad {
                None => out.outcome(&format!("{}-ok", kind)),
                Some((sig, what)) => {
                    if std::env::var("LVMC_TRACE").is_ok() {
                        eprintln!("[trace] {} :: {}", sig, what);
                    }
                    out.outcome(&format!("{}-violation", kind));
                    out.violation(Violation {
                        sig: format!("C14:{}", sig),
                        what,
                        weight,
                        case: serde_json::to_value(&case).unwrap(),
                    });
                }
            }
        };
        // (1) columns
        let alpha = crate::c01::push_alphabet_pub(tier);
        let mut seqs_: Vec<Vec<Push>> = alpha.iter().map(|a| vec![a.clone()]).collect();
        for a in &alpha {
            for b in &alpha {
                seqs_.push(vec![a.clone(), b.clone()]);
            }
        }
        for s in seqs_ {
            for lz4 in [true, false] {
                idx += 1;
                if idx % nshards != shard {
                    continue;
                }
                let bad = check_column(&s, lz4);
                if out.samples.len() < 1 && s.len() == 2 {
                    out.sample(json!({"column_from_pushes": s, "compressed": lz4}));
                }
                record(out, "column", s.len() as u64, C14Case::Column(s.clone(), lz4), bad);
            }
        }
        for tables in 0..=3usize {
            for parts in 1..=3usize {
                for subs in 1..=3usize {
                    for cursor in [0u64, 1, 1 << 32, u64::MAX - 1] {
                        idx += 1;
                        if idx % nshards != shard {
                            continue;
                        }
                        let bad = check_catalogue(tables, parts, subs, cursor);
                        record(out, "catalogue", (tables * parts * subs) as u64, C14Case::Catalogue(tables, parts, subs, cursor), bad);
                    }
                }
            }
        }
        for (i, b) in event_batches().into_iter().enumerate() {
            idx += 1;
            if idx % nshards != shard {
                continue;
            }
            let id = [0u64, 1, u64::MAX][i % 3];
            let bad = check_wal(&b, id);
            record(out, "wal", 1, C14Case::Wal(b, id), bad);
        }
        // (2) faults
        for (kind, payload) in blobs() {
            let stored_len = payload.len() + 48;
            for f in faults_for(stored_len, tier) {
                idx += 1;
                if idx % nshards != shard {
                    continue;
                }
                let bad = check_fault(&kind, &payload, &f);
                if out.samples.len() < 3 && matches!(f, Fault::BitFlip(60, _)) {
                    out.sample(json!({"blob": kind, "stored_bytes": stored_len, "fault": f}));
                }
                record(out, "fault", 1, C14Case::Fault(kind.clone(), f), bad);
            }
        }
        // (3) database level
        for kind in ["meta", "wal", "part"] {
            for variant in 0..4usize {
                idx += 1;
                if idx % nshards != shard {
                    continue;
                }
                let bad = check_db_fault(kind, variant);
                record(out, "dbfault", 10, C14Case::DbFault(kind.to_string(), variant), bad);
            }
        }
        let _: BTreeSet<u8> = BTreeSet::new();
    }

    fn replay(&self, case: &Value) -> Option<Violation> {
        let c: C14Case = serde_json::from_value(case.clone()).ok()?;
        let bad = match &c {
            C14Case::Column(s, l) => check_column(s, *l),
            C14Case::Catalogue(t, p, s, c) => check_catalogue(*t, *p, *s, *c),
            C14Case::Wal(b, id) => check_wal(b, *id),
            C14Case::Fault(kind, f) => {
                let payload = blobs().into_iter().find(|(k, _)| k == kind).map(|x| x.1)?;
                check_fault(kind, &payload, f)
            }
            C14Case::DbFault(kind, v) => check_db_fault(kind, *v),
        };
        bad.map(|(sig, what)| Violation {
            sig: format!("C14:{}", sig),
            what,
            weight: 1,
            case: case.clone(),
        })
    }
}
