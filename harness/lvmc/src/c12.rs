//! C12: every query string gets a well-formed answer or an error value.
//! Enumerated strings: a structured product of statements of the supported subset (quoting styles,
//! aliases, literal forms, LIMIT / OFFSET forms), every unsupported construct the SQL parser
//! accepts, and every single-byte deletion / adjacent transposition / structural-character
//! substitution of a set of seed statements.
use std::collections::BTreeSet;

use serde::{Deserialize, Serialize};
use serde_json::{json, Value};

use crate::c01::panic_file;
use crate::c03::norm_msg;
use crate::common::*;
use crate::qtables::*;
use crate::runner::*;

pub struct C12;

fn table() -> LogicalTable {
    LogicalTable::new(
        "t",
        vec![
            ("a", ints(&[1, 2, 3, 4, 5, 6, 7, 8])),
            ("b", opt_ints(&[Some(10), None, Some(30), None, Some(50), Some(60), None, Some(80)])),
            ("s", strs(&["x", "y", "x", "z", "y", "x", "w", "x"])),
            ("f", floats(&[0.5, 1.5, -2.0, 3.25, 0.0, 9.75, 1e3, -0.5])),
        ],
    )
}

fn layout() -> Layout {
    Layout {
        name: "two-partitions-plus-buffer".into(),
        batches: vec![3, 3, 2],
        flush_after: vec![true, true, false],
        omit_null_cols: false,
        opts: DbOpts {
            threads: 2,
            partition_combine_factor: 999,
            ..DbOpts::default()
        },
        post: vec![],
    }
}

#[derive(Clone, Debug, Serialize, Deserialize)]
pub struct StrCase {
    pub sql: String,
    /// expected output column names where the statement pins them (None = not checked)
    pub names: Option<Vec<Option<String>>>,
    pub limit: Option<u64>,
    /// the statement must be answered with an error value
    pub must_err: bool,
    /// every returned cell of these column positions must be NULL
    pub null_cols: Vec<usize>,
    pub origin: String,
}

fn plain(sql: &str, origin: &str) -> StrCase {
    StrCase {
        sql: sql.to_string(),
        names: None,
        limit: None,
        must_err: false,
        null_cols: vec![],
        origin: origin.to_string(),
    }
}

pub fn grammar_cases() -> Vec<StrCase> {
    let mut out = vec![];
    // select items: (text, expected name)
    let items: Vec<(&str, Option<&str>)> = vec![
        ("a", Some("a")),
        ("\"a\"", Some("a")),
        ("`a`", Some("a")),
        ("a AS x", Some("x")),
        ("a AS \"my col\"", Some("my col")),
        ("a x", Some("x")),
        ("b", Some("b")),
        ("s", Some("s")),
        ("f", Some("f")),
        ("nosuch", Some("nosuch")),
        ("a + b", None),
        ("(a + 1) * 2", None),
        ("a + b AS ab", Some("ab")),
        ("-a", None),
        ("a / 2", None),
        ("a % 3", None),
        ("length(s)", None),
        ("length(s) AS l", Some("l")),
        ("1", None),
        ("-1", None),
        ("1.0", None),
        (".5", None),
        ("1e3", None),
        ("1e400", None),
        ("9223372036854775807", None),
        ("9223372036854775808", None),
        ("12345678901234567890", None),
        ("'lit'", None),
        ("NULL", None),
        ("a > 2", None),
        ("s = 'x'", None),
        ("NOT a > 2", None),
        ("a IS NULL", None),
        ("b IS NOT NULL", None),
        ("s LIKE 'x%'", None),
        ("regex(s, '^x')", None),
        ("floor(f)", None),
        ("to_year(a)", None),
        ("COUNT(1)", None),
        ("COUNT(b) AS n", Some("n")),
        ("SUM(a)", None),
        ("MIN(f)", None),
        ("MAX(b)", None),
        ("AVG(a)", None),
        ("SUM(a) / COUNT(1)", None),
        ("SUM(a) + 1 AS t", Some("t")),
    ];
    let wheres = ["", " WHERE a > 2", " WHERE s = 'x' AND b IS NOT NULL", " WHERE nosuch = 1", " WHERE 1", " WHERE a"];
    let orders = ["", " ORDER BY a", " ORDER BY a DESC", " ORDER BY s, a DESC", " ORDER BY b", " ORDER BY a + b", " ORDER BY nosuch", " ORDER BY 1"];
    // one-item statements: full product with where / order
    for (it, name) in &items {
        for w in wheres {
            for o in orders {
                let mut c = plain(&format!("SELECT {} FROM t{}{}", it, w, o), "grammar");
                c.names = Some(vec![name.map(|s| s.to_string())]);
                if *it == "nosuch" {
                    c.null_cols = vec![0];
                }
                out.push(c);
            }
        }
    }
    // two- and three-item lists: all ordered pairs, triples over a covering subset
    for (i, (a, na)) in items.iter().enumerate() {
        for (j, (b, nb)) in items.iter().enumerate() {
            if i == j {
                continue;
            }
            let mut c = plain(&format!("SELECT {}, {} FROM t", a, b), "grammar");
            c.names = Some(vec![na.map(|s| s.to_string()), nb.map(|s| s.to_string())]);
            out.push(c);
        }
    }
    let sub: Vec<&(&str, Option<&str>)> = items.iter().step_by(4).collect();
    for a in &sub {
        for b in &sub {
            for c3 in &sub {
                let mut c = plain(&format!("SELECT {}, {}, {} FROM t LIMIT 5", a.0, b.0, c3.0), "grammar");
                c.names = Some(vec![a.1.map(|s| s.to_string()), b.1.map(|s| s.to_string()), c3.1.map(|s| s.to_string())]);
                c.limit = Some(5);
                out.push(c);
            }
        }
    }
    // LIMIT / OFFSET forms
    let limits: Vec<(&str, Option<u64>)> = vec![
        ("", None),
        (" LIMIT 0", Some(0)),
        (" LIMIT 1", Some(1)),
        (" LIMIT 5", Some(5)),
        (" LIMIT 1.5", None),
        (" LIMIT -1", None),
        (" LIMIT 1e3", None),
        (" LIMIT 18446744073709551615", Some(u64::MAX)),
        (" LIMIT 18446744073709551616", None),
        (" LIMIT 1234567890123456789012345", None),
        (" LIMIT 'x'", None),
        (" LIMIT NULL", None),
        (" LIMIT a", None),
        (" LIMIT ALL", None),
    ];
    let offsets = ["", " OFFSET 0", " OFFSET 1", " OFFSET 7", " OFFSET 8", " OFFSET 9", " OFFSET 1.5", " OFFSET -1", " OFFSET 18446744073709551615", " OFFSET 18446744073709551616", " OFFSET 'x'", " OFFSET a", " OFFSET 2 ROWS"];
    for sel in ["a", "a, s", "*", "s, COUNT(1)", "SUM(a)"] {
        for o in ["", " ORDER BY a DESC"] {
            if sel.contains("(") && !o.is_empty() {
                continue;
            }
            for (l, lv) in &limits {
                for off in offsets {
                    let mut c = plain(&format!("SELECT {} FROM t{}{}{}", sel, o, l, off), "limit-forms");
                    c.limit = *lv;
                    out.push(c);
                }
            }
        }
    }
    // tables
    for (tname, must_err) in [("nosuch", true), ("\"t\"", false), ("`t`", false), ("T", true), ("t2", true), ("_meta_tables", false), ("\"_meta_columns_t\"", false), ("\"\"", true)] {
        let mut c = plain(&format!("SELECT * FROM {}", tname), "tables");
        c.must_err = must_err;
        out.push(c);
        let mut c = plain(&format!("SELECT COUNT(1) FROM {} WHERE 1 = 1", tname), "tables");
        c.must_err = must_err;
        out.push(c);
    }
    out
}

pub fn unsupported_cases() -> Vec<StrCase> {
    [
        "SELECT a FROM t JOIN t AS u ON t.a = u.a",
        "SELECT a FROM t, t AS u",
        "SELECT a FROM t GROUP BY a",
        "SELECT a, COUNT(1) FROM t GROUP BY a HAVING COUNT(1) > 1",
        "SELECT a FROM t HAVING a > 1",
        "SELECT DISTINCT a FROM t",
        "SELECT DISTINCT ON (a) a, s FROM t",
        "SELECT a FROM (SELECT a FROM t)",
        "SELECT a FROM t WHERE a IN (1, 2)",
        "SELECT a FROM t WHERE a IN (SELECT a FROM t)",
        "SELECT a FROM t WHERE a BETWEEN 1 AND 3",
        "SELECT CASE WHEN a > 1 THEN 1 ELSE 0 END FROM t",
        "SELECT a FROM t UNION SELECT a FROM t",
        "SELECT a FROM t UNION ALL SELECT a FROM t",
        "SELECT a FROM t INTERSECT SELECT a FROM t",
        "WITH c AS (SELECT a FROM t) SELECT a FROM c",
        "SELECT a, ROW_NUMBER() OVER (ORDER BY a) FROM t",
        "SELECT SUM(a) OVER () FROM t",
        "SELECT a FROM t; SELECT s FROM t",
        "SELECT a FROM t;",
        ";",
        "",
        " ",
        "INSERT INTO t (a) VALUES (1)",
        "UPDATE t SET a = 1",
        "DELETE FROM t",
        "CREATE TABLE x (a INT)",
        "DROP TABLE t",
        "EXPLAIN SELECT a FROM t",
        "SELECT",
        "SELECT FROM t",
        "SELECT a",
        "SELECT 1",
        "SELECT a FROM",
        "SELECT t.a FROM t",
        "SELECT t.* FROM t",
        "SELECT *, a FROM t",
        "SELECT a, * FROM t",
        "SELECT * FROM t ORDER BY a",
        "SELECT * FROM t WHERE a > 2 LIMIT 2",
        "SELECT COUNT(*) FROM t",
        "SELECT COUNT(DISTINCT a) FROM t",
        "SELECT COUNT() FROM t",
        "SELECT COUNT(a, b) FROM t",
        "SELECT SUM(s) FROM t",
        "SELECT SUM(SUM(a)) FROM t",
        "SELECT MAX(s) FROM t",
        "SELECT a FROM t WHERE COUNT(1) > 1",
        "SELECT a FROM t ORDER BY COUNT(1)",
        "SELECT s, COUNT(1) FROM t ORDER BY COUNT(1) DESC",
        "SELECT s, COUNT(1) c FROM t ORDER BY c DESC LIMIT 2",
        "SELECT a FROM t WHERE s LIKE 'x%' ESCAPE '!'",
        "SELECT a FROM t WHERE s ILIKE 'X%'",
        "SELECT a FROM t WHERE s SIMILAR TO 'x'",
        "SELECT a FROM t WHERE regex(s, '(')",
        "SELECT a FROM t WHERE regex(s)",
        "SELECT regex(a, 'x') FROM t",
        "SELECT length(a) FROM t",
        "SELECT length(s, s) FROM t",
        "SELECT to_year(s) FROM t",
        "SELECT to_year() FROM t",
        "SELECT floor(s) FROM t",
        "SELECT unknownfn(a) FROM t",
        "SELECT a || s FROM t",
        "SELECT a & 1 FROM t",
        "SELECT a ^ 2 FROM t",
        "SELECT +a FROM t",
        "SELECT a::text FROM t",
        "SELECT CAST(a AS FLOAT) FROM t",
        "SELECT a FROM t WHERE s = \"x\"",
        "SELECT a FROM t WHERE a = TRUE",
        "SELECT TRUE FROM t",
        "SELECT X'ff' FROM t",
        "SELECT DATE '2020-01-01' FROM t",
        "SELECT INTERVAL '1' DAY FROM t",
        "SELECT a FROM t WHERE a > ALL (SELECT a FROM t)",
        "SELECT EXISTS (SELECT 1) FROM t",
        "SELECT a FROM t ORDER BY a NULLS FIRST",
        "SELECT a FROM t ORDER BY a ASC, a DESC, a",
        "SELECT a FROM t LIMIT 1, 2",
        "SELECT a FROM t OFFSET 1 LIMIT 2",
        "SELECT a FROM t FETCH FIRST 2 ROWS ONLY",
        "SELECT a FROM t FOR UPDATE",
        "SELECT TOP 2 a FROM t",
        "SELECT a AS a, a AS a FROM t",
        "SELECT a, a FROM t",
        "SELECT a a FROM t t",
        "SELECT a FROM t AS u",
        "SELECT u.a FROM t AS u",
        "SELECT a FROM t WHERE",
        "SELECT a FROM t WHERE a >",
        "SELECT a FROM t ORDER BY",
        "SELECT a FROM t LIMIT",
        "SELECT ((((((((((a)))))))))) FROM t",
        "SELECT a FROM t WHERE ((a > 1) AND ((a < 5) OR (NOT (a = 3))))",
        "SELECT a FROM t WHERE NULL",
        "SELECT a FROM t WHERE NULL IS NULL",
        "SELECT a FROM t WHERE 'x'",
        "SELECT a FROM t WHERE a = NULL",
        "SELECT NULL + 1 FROM t",
        "SELECT a / 0 FROM t",
        "SELECT a % 0 FROM t",
        "SELECT 1 / 0 FROM t",
        "SELECT 9223372036854775807 + 1 FROM t",
        "SELECT -9223372036854775808 FROM t",
        "SELECT a + 9223372036854775807 FROM t",
        "SELECT SUM(a) + SUM(a) FROM t",
        "SELECT SUM(a * 9223372036854775807) FROM t",
        "SELECT SUM(a) * 9223372036854775807 FROM t",
        "SELECT 'a' + 1 FROM t",
        "SELECT s + 1 FROM t",
        "SELECT s > 1 FROM t",
        "SELECT a FROM t WHERE s > 1",
        "SELECT a FROM \"t",
        "SELECT 'a FROM t",
        "SELECT a FROM t -- comment",
        "SELECT a /* c */ FROM t",
        "select a from t",
        "SeLeCt A fRoM t",
        "SELECT\ta\nFROM\rt",
        "SELECT é FROM t",
        "SELECT \"é\" FROM t",
        "SELECT '☃' FROM t",
        "SELECT a FROM t WHERE s = '\u{0}'",
        "\u{feff}SELECT a FROM t",
    ]
    .iter()
    .map(|s| plain(s, "constructs"))
    .collect()
}

pub fn seeds() -> Vec<&'static str> {
    vec![
        "SELECT a FROM t",
        "SELECT a, s FROM t WHERE a > 2",
        "SELECT * FROM t LIMIT 3",
        "SELECT \"a\" AS x FROM \"t\"",
        "SELECT a + b * 2 FROM t ORDER BY a DESC",
        "SELECT s, COUNT(1) FROM t",
        "SELECT SUM(a) / COUNT(1) FROM t WHERE s = 'x'",
        "SELECT a FROM t WHERE s LIKE 'x%' AND NOT (b IS NULL)",
        "SELECT a FROM t ORDER BY s, a LIMIT 2 OFFSET 1",
        "SELECT regex(s, '^x'), length(s) FROM t",
        "SELECT -a, 1.5 FROM t WHERE f <= 1e3",
        "SELECT MAX(f), MIN(b) FROM t;",
    ]
}

pub fn mutation_cases(tier: Tier) -> Vec<StrCase> {
    let structural = ['(', ')', ',', '\'', '"', '`', '*', ';', '.', '-', ' ', '0'];
    let mut set = BTreeSet::new();
    for s in seeds() {
        let chars: Vec<char> = s.chars().collect();
        for i in 0..chars.len() {
            // deletion
            let mut d = chars.clone();
            d.remove(i);
            set.insert(d.iter().collect::<String>());
            // transposition
            if i + 1 < chars.len() {
                let mut t = chars.clone();
                t.swap(i, i + 1);
                set.insert(t.iter().collect::<String>());
            }
            // substitution
            for (k, c) in structural.iter().enumerate() {
                if tier == Tier::Quick && (i + k) % 2 == 1 {
                    continue;
                }
                let mut u = chars.clone();
                u[i] = *c;
                set.insert(u.iter().collect::<String>());
            }
            // insertion of a structural character (thorough)
            if tier == Tier::Thorough {
                for c in structural {
                    let mut u = chars.clone();
                    u.insert(i, c);
                    set.insert(u.iter().collect::<String>());
                }
            }
        }
    }
    set.into_iter().map(|s| plain(&s, "mutation")).collect()
}

pub fn all_cases(tier: Tier) -> Vec<StrCase> {
    let mut v = grammar_cases();
    v.extend(unsupported_cases());
    v.extend(mutation_cases(tier));
    v
}

/// (outcome class, violation)
pub fn check_string(db: &mut Db, c: &StrCase) -> (String, Option<(String, String)>) {
    let res = db.query(&c.sql);
    let panics = take_panics();
    let site = panics.first().map(panic_file).unwrap_or_default();
    match res {
        Outcome::Hang => ("hang".into(), Some((format!("no-answer:hang:{}", site), format!("{:?} did not return; panics {:?}", c.sql, panics)))),
        Outcome::Panic(m) => (
            "caller-panic".into(),
            Some((format!("caller-panic:{}:{}", site, norm_msg(&m)), format!("{:?} panicked in the caller: {}", c.sql, m))),
        ),
        Outcome::Ok(Err((kind, msg))) => {
            if kind == "Canceled" {
                return (
                    "lost-answer".into(),
                    Some((format!("lost-answer:{}", site), format!("{:?}: the answer was lost (Canceled); panics {:?}", c.sql, panics))),
                );
            }
            let _ = msg;
            (format!("err-{}", kind), None)
        }
        Outcome::Ok(Ok(out)) => {
            if c.must_err {
                return ("ok-but-must-fail".into(), Some(("unknown-table-answered".into(), format!("{:?} returned a result although the table does not exist: {:?}", c.sql, out.colnames))));
            }
            let n = out.colnames.len();
            if out.cols.len() != n {
                return ("malformed".into(), Some(("colview-width".into(), format!("{:?}: {} column names but {} columns in the column view", c.sql, n, out.cols.len()))));
            }
            for (i, (name, _)) in out.cols.iter().enumerate() {
                if *name != out.colnames[i] {
                    return ("malformed".into(), Some(("colview-names".into(), format!("{:?}: column view names {:?} differ from colnames {:?}", c.sql, out.cols.iter().map(|c| &c.0).collect::<Vec<_>>(), out.colnames))));
                }
            }
            let len = out.rows.len();
            for (ci, (name, vals)) in out.cols.iter().enumerate() {
                if vals.len() != len {
                    return ("malformed".into(), Some(("column-lengths".into(), format!("{:?}: column {} has {} cells, the row view has {} rows", c.sql, name, vals.len(), len))));
                }
                for (ri_, row) in out.rows.iter().enumerate() {
                    if row.len() != n {
                        return ("malformed".into(), Some(("row-width".into(), format!("{:?}: row {} has {} cells, {} columns", c.sql, ri_, row.len(), n))));
                    }
                    if row[ci] != vals[ri_] {
                        return ("malformed".into(), Some(("views-disagree".into(), format!("{:?}: row view and column view disagree at row {} column {}: {:?} vs {:?}", c.sql, ri_, name, row[ci], vals[ri_]))));
                    }
                }
            }
            if let Some(l) = c.limit {
                if len as u64 > l {
                    return ("malformed".into(), Some(("more-rows-than-limit".into(), format!("{:?} returned {} rows", c.sql, len))));
                }
            }
            if let Some(names) = &c.names {
                if names.len() != n {
                    return ("malformed".into(), Some(("select-width".into(), format!("{:?}: {} select items but {} result columns {:?}", c.sql, names.len(), n, out.colnames))));
                }
                for (i, want) in names.iter().enumerate() {
                    if let Some(w) = want {
                        if out.colnames[i] != *w {
                            return ("malformed".into(), Some(("column-name".into(), format!("{:?}: column {} is named {:?}, expected {:?}", c.sql, i, out.colnames[i], w))));
                        }
                    }
                }
            }
            for ci in &c.null_cols {
                if *ci < n && out.cols[*ci].1.iter().any(|v| !v.is_null()) {
                    return ("malformed".into(), Some(("unknown-column-not-null".into(), format!("{:?}: unknown column reads {:?}", c.sql, out.cols[*ci].1))));
                }
            }
            (if len == 0 { "ok-empty".into() } else { "ok-rows".into() }, None)
        }
    }
}

impl Engine for C12 {
    fn property(&self) -> &'static str {
        "C12"
    }

    fn describe(&self, tier: Tier) -> Describe {
        Describe {
            level: "model_checking",
            rule: "every string of three enumerated families against a real database (8 rows, two partitions + open buffer, 2 workers): (1) grammar: 46 select items (three quoting styles, aliases, all numeric literal forms incl. beyond i64 / u64 / 1e400, operators, functions, aggregates, unknown column) x 6 WHERE x 8 ORDER BY, all ordered pairs, triples over a covering subset, 5 select lists x 14 LIMIT forms x 13 OFFSET forms, 8 table name forms; (2) 125 statements with unsupported or malformed constructs (JOIN, GROUP BY, HAVING, DISTINCT, sub-queries, IN, BETWEEN, CASE, set operations, CTE, window functions, several statements, non-SELECT, overflowing constants, type errors, unterminated quotes, comments); (3) every single-character deletion, adjacent transposition and substitution by each of 12 structural characters of 12 seed statements. Oracle: the call returns (no panic in the caller, no lost answer, within the deadline) and a result is well formed (names = select list where pinned, equal column lengths, row view = column view, rows <= LIMIT, unknown table -> error, unknown column -> NULL). Non-trivial: the string is answered with rows or with an error other than a plain syntax error; distinct by string.".into(),
            assumptions: vec!["error values of any kind (including FatalError) count as answers; only Canceled counts as a lost answer".into(), "column names are checked only where the statement pins them (plain column references and aliases)".into()],
            bounds: json!({"strings": all_cases(tier).len(), "grammar": grammar_cases().len(), "constructs": unsupported_cases().len(), "mutations": mutation_cases(tier).len()}),
            states_meaning: "distinct query strings submitted",
        }
    }

    fn run_shard(&self, tier: Tier, shard: usize, nshards: usize, out: &mut ShardResult) {
        let t = table();
        let l = layout();
        let mut db = match build(&t, &l) {
            Ok(db) => db,
            Err(e) => {
                out.violation(Violation { sig: "C12:build:hang-or-failure".into(), what: e, weight: 1, case: json!(plain("SELECT 1", "build")) });
                return;
            }
        };
        for (i, c) in all_cases(tier).iter().enumerate() {
            if i % nshards != shard {
                continue;
            }
            out.evaluations += 1;
            out.transitions += 1;
            let h = hash64(c.sql.as_bytes());
            out.states.insert(h);
            let (class, bad) = check_string(&mut db, c);
            if class != "err-ParseError" {
                out.nontrivial.insert(h);
            }
            out.outcome(&format!("{}:{}", c.origin, class));
            if out.samples.len() < 4 && c.origin == "mutation" && class.starts_with("ok") && i % 97 == 0 {
                out.sample(json!({"string": c.sql, "outcome": class}));
            }
            if let Some((kind, what)) = bad {
                if std::env::var("LVMC_TRACE").is_ok() {
                    eprintln!("[trace] {} :: {}", kind, what);
                }
                out.violation(Violation {
                    sig: format!("C12:{}", kind),
                    what,
                    weight: c.sql.len() as u64,
                    case: serde_json::to_value(c).unwrap(),
                });
                // a lost worker or a poisoned lock must not poison the following strings
                let fresh = build(&t, &l);
                let old = std::mem::replace(
                    &mut db,
                    match fresh {
                        Ok(d) => d,
                        Err(_) => break,
                    },
                );
                old.destroy();
                out.count("databases_rebuilt_after_failure", 1);
            }
        }
        db.destroy();
    }

    fn replay(&self, case: &Value) -> Option<Violation> {
        let c: StrCase = serde_json::from_value(case.clone()).expect("string case");
        let mut db = build(&table(), &layout()).ok()?;
        let (_, bad) = check_string(&mut db, &c);
        db.destroy();
        bad.map(|(kind, what)| Violation {
            sig: format!("C12:{}", kind),
            what,
            weight: 1,
            case: case.clone(),
        })
    }
}
