//! Reference query model: a small SQL AST that renders to LocustDB's dialect and a row-at-a-time
//! evaluator with exact (i128) integer arithmetic, three-valued logic and plain sorting / grouping.
use std::cmp::Ordering;
use std::collections::BTreeMap;

use serde::{Deserialize, Serialize};

use crate::common::*;

#[derive(Clone, Copy, Debug, PartialEq, Eq, Hash, Serialize, Deserialize, PartialOrd, Ord)]
pub enum BinOp {
    Eq,
    Ne,
    Lt,
    Le,
    Gt,
    Ge,
    And,
    Or,
    Add,
    Sub,
    Mul,
    Div,
    Mod,
}

#[derive(Clone, Copy, Debug, PartialEq, Eq, Hash, Serialize, Deserialize, PartialOrd, Ord)]
pub enum Agg {
    Count,
    Sum,
    Min,
    Max,
    Avg,
}

#[derive(Clone, Debug, PartialEq, Eq, Hash, Serialize, Deserialize, PartialOrd, Ord)]
pub enum E {
    Col(String),
    Int(i64),
    /// float constant by bits
    Float(u64),
    Str(String),
    Bin(BinOp, Box<E>, Box<E>),
    Not(Box<E>),
    Neg(Box<E>),
    IsNull(Box<E>),
    IsNotNull(Box<E>),
    Like(Box<E>, String),
    NotLike(Box<E>, String),
    Regex(Box<E>, String),
    Length(Box<E>),
    Agg(Agg, Box<E>),
}

pub fn col(n: &str) -> E {
    E::Col(n.to_string())
}
pub fn bin(op: BinOp, a: E, b: E) -> E {
    E::Bin(op, Box::new(a), Box::new(b))
}
pub fn agg(a: Agg, e: E) -> E {
    E::Agg(a, Box::new(e))
}
pub fn fl(x: f64) -> E {
    E::Float(x.to_bits())
}

#[derive(Clone, Debug, PartialEq, Eq, Hash, Serialize, Deserialize)]
pub struct Q {
    pub select: Vec<(E, Option<String>)>,
    pub table: String,
    pub filter: Option<E>,
    pub order: Vec<(E, bool)>,
    pub limit: Option<u64>,
    pub offset: Option<u64>,
}

impl Q {
    pub fn select(table: &str, exprs: Vec<E>) -> Q {
        Q {
            select: exprs.into_iter().map(|e| (e, None)).collect(),
            table: table.to_string(),
            filter: None,
            order: vec![],
            limit: None,
            offset: None,
        }
    }
    pub fn filter(mut self, e: E) -> Q {
        self.filter = Some(e);
        self
    }
    pub fn order_by(mut self, e: E, desc: bool) -> Q {
        self.order.push((e, desc));
        self
    }
    pub fn limit(mut self, l: u64) -> Q {
        self.limit = Some(l);
        self
    }
    pub fn offset(mut self, o: u64) -> Q {
        self.offset = Some(o);
        self
    }

    pub fn sql(&self) -> String {
        let mut s = String::from("SELECT ");
        let items: Vec<String> = self
            .select
            .iter()
            .map(|(e, a)| match a {
                Some(a) => format!("{} AS {}", e.sql(), ident(a)),
                None => e.sql(),
            })
            .collect();
        s += &items.join(", ");
        s += &format!(" FROM {}", ident(&self.table));
        if let Some(f) = &self.filter {
            s += &format!(" WHERE {}", f.sql());
        }
        if !self.order.is_empty() {
            let o: Vec<String> = self
                .order
                .iter()
                .map(|(e, d)| format!("{}{}", e.sql(), if *d { " DESC" } else { " ASC" }))
                .collect();
            s += &format!(" ORDER BY {}", o.join(", "));
        }
        if let Some(l) = self.limit {
            s += &format!(" LIMIT {}", l);
        }
        if let Some(o) = self.offset {
            s += &format!(" OFFSET {}", o);
        }
        s
    }

    pub fn has_aggregate(&self) -> bool {
        self.select.iter().any(|(e, _)| e.has_agg())
    }
}

pub fn ident(n: &str) -> String {
    if !n.is_empty()
        && n.chars().all(|c| c.is_ascii_lowercase() || c.is_ascii_digit() || c == '_')
        && !n.chars().next().unwrap().is_ascii_digit()
    {
        n.to_string()
    } else {
        format!("\"{}\"", n)
    }
}

fn sql_str(s: &str) -> String {
    format!("'{}'", s.replace('\'', "''"))
}

impl E {
    pub fn sql(&self) -> String {
        match self {
            E::Col(c) => ident(c),
            E::Int(i) => {
                if *i == i64::MIN {
                    "(-9223372036854775807 - 1)".to_string()
                } else if *i < 0 {
                    format!("({})", i)
                } else {
                    format!("{}", i)
                }
            }
            E::Float(b) => {
                let f = f64::from_bits(*b);
                let s = format!("{:?}", f.abs());
                if f.is_sign_negative() {
                    format!("(-{})", s)
                } else {
                    s
                }
            }
            E::Str(s) => sql_str(s),
            E::Bin(op, a, b) => {
                let o = match op {
                    BinOp::Eq => "=",
                    BinOp::Ne => "<>",
                    BinOp::Lt => "<",
                    BinOp::Le => "<=",
                    BinOp::Gt => ">",
                    BinOp::Ge => ">=",
                    BinOp::And => "AND",
                    BinOp::Or => "OR",
                    BinOp::Add => "+",
                    BinOp::Sub => "-",
                    BinOp::Mul => "*",
                    BinOp::Div => "/",
                    BinOp::Mod => "%",
                };
                format!("({} {} {})", a.sql(), o, b.sql())
            }
            E::Not(a) => format!("(NOT {})", a.sql()),
            E::Neg(a) => format!("(-{})", a.sql()),
            E::IsNull(a) => format!("({} IS NULL)", a.sql()),
            E::IsNotNull(a) => format!("({} IS NOT NULL)", a.sql()),
            E::Like(a, p) => format!("({} LIKE {})", a.sql(), sql_str(p)),
            E::NotLike(a, p) => format!("({} NOT LIKE {})", a.sql(), sql_str(p)),
            E::Regex(a, p) => format!("regex({}, {})", a.sql(), sql_str(p)),
            E::Length(a) => format!("length({})", a.sql()),
            E::Agg(g, a) => {
                let n = match g {
                    Agg::Count => "COUNT",
                    Agg::Sum => "SUM",
                    Agg::Min => "MIN",
                    Agg::Max => "MAX",
                    Agg::Avg => "AVG",
                };
                format!("{}({})", n, a.sql())
            }
        }
    }

    pub fn has_agg(&self) -> bool {
        match self {
            E::Agg(..) => true,
            E::Col(_) | E::Int(_) | E::Float(_) | E::Str(_) => false,
            E::Bin(_, a, b) => a.has_agg() || b.has_agg(),
            E::Not(a) | E::Neg(a) | E::IsNull(a) | E::IsNotNull(a) | E::Length(a) => a.has_agg(),
            E::Like(a, _) | E::NotLike(a, _) | E::Regex(a, _) => a.has_agg(),
        }
    }

    pub fn size(&self) -> usize {
        match self {
            E::Col(_) | E::Int(_) | E::Float(_) | E::Str(_) => 1,
            E::Bin(_, a, b) => 1 + a.size() + b.size(),
            E::Not(a) | E::Neg(a) | E::IsNull(a) | E::IsNotNull(a) | E::Length(a) | E::Agg(_, a) => 1 + a.size(),
            E::Like(a, _) | E::NotLike(a, _) | E::Regex(a, _) => 1 + a.size(),
        }
    }
}

// ---------------------------------------------------------------------------------------------
// Evaluation
// ---------------------------------------------------------------------------------------------

/// Evaluation value: integers are exact.
#[derive(Clone, Debug, PartialEq)]
pub enum V {
    Null,
    I(i128),
    F(f64),
    S(String),
}

#[derive(Clone, Debug, PartialEq, Eq)]
pub enum EvalErr {
    /// integer result does not fit i64, or integer division by zero
    Overflow,
    /// operands of incompatible types (the engine may report a type error or not support it)
    Type,
    /// the reference does not define the result (outside the compared fragment)
    Undefined,
}

impl V {
    pub fn from_rval(r: &RVal) -> V {
        match r {
            RVal::Null => V::Null,
            RVal::Int(i) => V::I(*i as i128),
            RVal::Float(b) => V::F(f64::from_bits(*b)),
            RVal::Str(s) => V::S(s.clone()),
        }
    }
    pub fn is_null(&self) -> bool {
        matches!(self, V::Null)
    }
}

pub type Row = BTreeMap<String, RVal>;

fn truth(v: &V) -> Result<Option<bool>, EvalErr> {
    match v {
        V::Null => Ok(None),
        V::I(i) => Ok(Some(*i != 0)),
        _ => Err(EvalErr::Type),
    }
}

fn b2v(b: Option<bool>) -> V {
    match b {
        None => V::Null,
        Some(true) => V::I(1),
        Some(false) => V::I(0),
    }
}

pub fn cmp_vals(a: &V, b: &V) -> Result<Option<Ordering>, EvalErr> {
    Ok(match (a, b) {
        (V::Null, _) | (_, V::Null) => None,
        (V::I(x), V::I(y)) => Some(x.cmp(y)),
        (V::F(x), V::F(y)) => x.partial_cmp(y),
        (V::I(x), V::F(y)) => (*x as f64).partial_cmp(y),
        (V::F(x), V::I(y)) => x.partial_cmp(&(*y as f64)),
        (V::S(x), V::S(y)) => Some(x.as_bytes().cmp(y.as_bytes())),
        _ => return Err(EvalErr::Type),
    })
}

pub fn like_match(s: &str, p: &str) -> bool {
    // % = any sequence, _ = any single character; no escape character
    let s: Vec<char> = s.chars().collect();
    let p: Vec<char> = p.chars().collect();
    fn rec(s: &[char], p: &[char]) -> bool {
        if p.is_empty() {
            return s.is_empty();
        }
        // backslash before a wildcard makes it literal (the engine's documented-by-code escape)
        if p[0] == '\\' && p.len() >= 2 && (p[1] == '%' || p[1] == '_') {
            return !s.is_empty() && s[0] == p[1] && rec(&s[1..], &p[2..]);
        }
        match p[0] {
            '%' => (0..=s.len()).any(|k| rec(&s[k..], &p[1..])),
            '_' => !s.is_empty() && rec(&s[1..], &p[1..]),
            c => !s.is_empty() && s[0] == c && rec(&s[1..], &p[1..]),
        }
    }
    rec(&s, &p)
}

fn check_i64(x: i128) -> Result<V, EvalErr> {
    if x < i64::MIN as i128 || x > i64::MAX as i128 {
        Err(EvalErr::Overflow)
    } else if x == i64::MAX as i128 {
        // 2^63-1 is the engine's reserved NULL marker: a computation that produces it is outside the value domain
        Err(EvalErr::Undefined)
    } else {
        Ok(V::I(x))
    }
}

/// `two_valued`: a comparison with NULL yields false instead of unknown (the other reading of
/// "a comparison involving NULL is not true" under NOT).
pub fn eval(e: &E, row: &Row, two_valued: bool) -> Result<V, EvalErr> {
    Ok(match e {
        E::Col(c) => row.get(c).map(V::from_rval).unwrap_or(V::Null),
        E::Int(i) => V::I(*i as i128),
        E::Float(b) => V::F(f64::from_bits(*b)),
        E::Str(s) => V::S(s.clone()),
        E::Neg(a) => match eval(a, row, two_valued)? {
            V::Null => V::Null,
            V::I(x) => check_i64(-x)?,
            V::F(x) => V::F(-x),
            V::S(_) => return Err(EvalErr::Type),
        },
        E::Not(a) => {
            let v = eval(a, row, two_valued)?;
            b2v(truth(&v)?.map(|b| !b))
        }
        E::IsNull(a) => b2v(Some(eval(a, row, two_valued)?.is_null())),
        E::IsNotNull(a) => b2v(Some(!eval(a, row, two_valued)?.is_null())),
        E::Like(a, p) | E::NotLike(a, p) => {
            let neg = matches!(e, E::NotLike(..));
            match eval(a, row, two_valued)? {
                V::Null => {
                    if two_valued {
                        b2v(Some(false))
                    } else {
                        V::Null
                    }
                }
                V::S(s) => b2v(Some(like_match(&s, p) != neg)),
                _ => return Err(EvalErr::Type),
            }
        }
        E::Regex(a, p) => match eval(a, row, two_valued)? {
            V::Null => {
                if two_valued {
                    b2v(Some(false))
                } else {
                    V::Null
                }
            }
            V::S(s) => match regex::Regex::new(p) {
                Ok(r) => b2v(Some(r.is_match(&s))),
                Err(_) => return Err(EvalErr::Type),
            },
            _ => return Err(EvalErr::Type),
        },
        E::Length(a) => match eval(a, row, two_valued)? {
            V::Null => V::Null,
            V::S(s) => V::I(s.len() as i128),
            _ => return Err(EvalErr::Type),
        },
        E::Agg(..) => return Err(EvalErr::Undefined),
        E::Bin(op, a, b) => {
            let x = eval(a, row, two_valued)?;
            let y = eval(b, row, two_valued)?;
            match op {
                BinOp::And => {
                    let (p, q) = (truth(&x)?, truth(&y)?);
                    b2v(match (p, q) {
                        (Some(false), _) | (_, Some(false)) => Some(false),
                        (Some(true), Some(true)) => Some(true),
                        _ => None,
                    })
                }
                BinOp::Or => {
                    let (p, q) = (truth(&x)?, truth(&y)?);
                    b2v(match (p, q) {
                        (Some(true), _) | (_, Some(true)) => Some(true),
                        (Some(false), Some(false)) => Some(false),
                        _ => None,
                    })
                }
                BinOp::Eq | BinOp::Ne | BinOp::Lt | BinOp::Le | BinOp::Gt | BinOp::Ge => {
                    let o = cmp_vals(&x, &y)?;
                    let r = match o {
                        None => {
                            if x.is_null() || y.is_null() {
                                if two_valued {
                                    Some(false)
                                } else {
                                    None
                                }
                            } else {
                                // NaN: only <> is true
                                Some(matches!(op, BinOp::Ne))
                            }
                        }
                        Some(o) => Some(match op {
                            BinOp::Eq => o == Ordering::Equal,
                            BinOp::Ne => o != Ordering::Equal,
                            BinOp::Lt => o == Ordering::Less,
                            BinOp::Le => o != Ordering::Greater,
                            BinOp::Gt => o == Ordering::Greater,
                            BinOp::Ge => o != Ordering::Less,
                            _ => unreachable!(),
                        }),
                    };
                    b2v(r)
                }
                BinOp::Add | BinOp::Sub | BinOp::Mul | BinOp::Div | BinOp::Mod => match (x, y) {
                    (V::Null, V::S(_)) | (V::S(_), V::Null) | (V::S(_), _) | (_, V::S(_)) => {
                        return Err(EvalErr::Type)
                    }
                    (V::Null, _) | (_, V::Null) => V::Null,
                    (V::I(p), V::I(q)) => match op {
                        BinOp::Add => check_i64(p + q)?,
                        BinOp::Sub => check_i64(p - q)?,
                        BinOp::Mul => check_i64(p * q)?,
                        BinOp::Div => {
                            if q == 0 {
                                return Err(EvalErr::Overflow);
                            }
                            check_i64(p / q)?
                        }
                        BinOp::Mod => {
                            if q == 0 {
                                return Err(EvalErr::Overflow);
                            }
                            check_i64(p % q)?
                        }
                        _ => unreachable!(),
                    },
                    (p, q) => {
                        let p = match p {
                            V::I(i) => i as f64,
                            V::F(f) => f,
                            _ => unreachable!(),
                        };
                        let q = match q {
                            V::I(i) => i as f64,
                            V::F(f) => f,
                            _ => unreachable!(),
                        };
                        V::F(match op {
                            BinOp::Add => p + q,
                            BinOp::Sub => p - q,
                            BinOp::Mul => p * q,
                            BinOp::Div => p / q,
                            BinOp::Mod => p % q,
                            _ => unreachable!(),
                        })
                    }
                },
            }
        }
    })
}

/// Does the row pass the filter? (None filter = all rows)
pub fn passes(filter: &Option<E>, row: &Row, two_valued: bool) -> Result<bool, EvalErr> {
    match filter {
        None => Ok(true),
        Some(f) => Ok(truth(&eval(f, row, two_valued)?)? == Some(true)),
    }
}

/// Total order used by ORDER BY: NULL after every value (ascending).
pub fn order_cmp(a: &V, b: &V) -> Ordering {
    match (a, b) {
        (V::Null, V::Null) => Ordering::Equal,
        (V::Null, _) => Ordering::Greater,
        (_, V::Null) => Ordering::Less,
        _ => cmp_vals(a, b).ok().flatten().unwrap_or(Ordering::Equal),
    }
}

pub fn key_cmp(a: &[V], b: &[V], desc: &[bool]) -> Ordering {
    for i in 0..a.len() {
        let mut o = order_cmp(&a[i], &b[i]);
        if desc[i] {
            o = o.reverse();
        }
        if o != Ordering::Equal {
            return o;
        }
    }
    Ordering::Equal
}

/// Group key / cell identity for multiset comparison (floats by value, -0.0 == 0.0 kept apart by bits).
pub fn v_key(v: &V) -> String {
    match v {
        V::Null => "N".into(),
        V::I(i) => format!("I{}", i),
        V::F(f) => format!("F{:016x}", f.to_bits()),
        V::S(s) => format!("S{}", s),
    }
}

/// Aggregate evaluation over the rows of one group. `Err(Overflow)` if an integer SUM leaves i64.
/// The second component tells whether an integer sum could overflow in some summation order although the total fits.
pub fn eval_agg(e: &E, rows: &[&Row], two_valued: bool) -> Result<(V, bool), EvalErr> {
    match e {
        E::Agg(kind, arg) => {
            let mut vals = vec![];
            for r in rows {
                vals.push(eval(arg, r, two_valued)?);
            }
            let nn: Vec<&V> = vals.iter().filter(|v| !v.is_null()).collect();
            match kind {
                Agg::Count => Ok((V::I(nn.len() as i128), false)),
                Agg::Sum | Agg::Avg => {
                    if nn.is_empty() {
                        return Ok((V::Null, false));
                    }
                    let all_int = nn.iter().all(|v| matches!(v, V::I(_)));
                    let sum = if all_int {
                        let mut s: i128 = 0;
                        let mut pos: i128 = 0;
                        let mut neg: i128 = 0;
                        for v in &nn {
                            if let V::I(i) = v {
                                s += i;
                                if *i > 0 {
                                    pos += i;
                                } else {
                                    neg += i;
                                }
                            }
                        }
                        let risky = pos > i64::MAX as i128 || neg < i64::MIN as i128;
                        if s > i64::MAX as i128 || s < i64::MIN as i128 {
                            return Err(EvalErr::Overflow);
                        }
                        (V::I(s), risky)
                    } else {
                        let mut s = 0.0f64;
                        for v in &nn {
                            match v {
                                V::I(i) => s += *i as f64,
                                V::F(f) => s += f,
                                _ => return Err(EvalErr::Type),
                            }
                        }
                        (V::F(s), false)
                    };
                    if *kind == Agg::Sum {
                        Ok(sum)
                    } else {
                        let n = nn.len() as i128;
                        match sum.0 {
                            V::I(s) => Ok((V::I(s / n), sum.1)),
                            V::F(s) => Ok((V::F(s / n as f64), false)),
                            _ => unreachable!(),
                        }
                    }
                }
                Agg::Min | Agg::Max => {
                    if nn.is_empty() {
                        return Ok((V::Null, false));
                    }
                    let mut best = nn[0].clone();
                    for v in &nn[1..] {
                        let o = cmp_vals(v, &best)?.unwrap_or(Ordering::Equal);
                        if (*kind == Agg::Min && o == Ordering::Less) || (*kind == Agg::Max && o == Ordering::Greater) {
                            best = (*v).clone();
                        }
                    }
                    Ok((best, false))
                }
            }
        }
        // expression over aggregates (final pass)
        E::Bin(op, a, b) if e.has_agg() => {
            let (x, r1) = if a.has_agg() { eval_agg(a, rows, two_valued)? } else { (eval(a, &Row::new(), two_valued)?, false) };
            let (y, r2) = if b.has_agg() { eval_agg(b, rows, two_valued)? } else { (eval(b, &Row::new(), two_valued)?, false) };
            // evaluate the operator on constants
            let lit = |v: &V| match v {
                V::Null => None,
                V::I(i) => Some(E::Int(*i as i64)),
                V::F(f) => Some(fl(*f)),
                V::S(s) => Some(E::Str(s.clone())),
            };
            match (lit(&x), lit(&y)) {
                (Some(l), Some(r)) => Ok((eval(&bin(*op, l, r), &Row::new(), two_valued)?, r1 || r2)),
                _ => Ok((V::Null, r1 || r2)),
            }
        }
        _ => Err(EvalErr::Undefined),
    }
}

#[derive(Clone, Debug)]
pub struct RefResult {
    /// some cell equals 2^63-1 (outside the value domain)
    pub has_sentinel: bool,
    pub rows: Vec<Vec<V>>,
    /// ORDER BY key tuple of each row (same order as rows)
    pub keys: Vec<Vec<V>>,
    /// some integer sum only fits for some summation orders
    pub sum_order_sensitive: bool,
}

/// Reference answer without LIMIT / OFFSET applied; rows are in ORDER BY order (stable w.r.t.
/// ingestion order for plain selects, group order unspecified for aggregates without ORDER BY).
pub fn eval_query(q: &Q, table: &RefTable, two_valued: bool) -> Result<RefResult, EvalErr> {
    match eval_query_inner(q, table, two_valued) {
        Err(EvalErr::Overflow) => Err(EvalErr::Overflow),
        other => {
            // an overflow anywhere dominates an undefined / type problem elsewhere: look at every row on its own
            if other.is_err() && !q.has_aggregate() {
                for r in &table.rows {
                    let one = RefTable {
                        columns: table.columns.clone(),
                        rows: vec![r.clone()],
                        kinds: table.kinds.clone(),
                    };
                    if let Err(EvalErr::Overflow) = eval_query_inner(q, &one, two_valued) {
                        return Err(EvalErr::Overflow);
                    }
                }
            }
            other
        }
    }
}

fn eval_query_inner(q: &Q, table: &RefTable, two_valued: bool) -> Result<RefResult, EvalErr> {
    let mut kept: Vec<&Row> = vec![];
    for r in &table.rows {
        if passes(&q.filter, r, two_valued)? {
            kept.push(r);
        }
    }
    let desc: Vec<bool> = q.order.iter().map(|(_, d)| *d).collect();
    let mut risky = false;
    let mut out: Vec<(Vec<V>, Vec<V>)> = vec![];
    if q.has_aggregate() {
        let plain: Vec<usize> = (0..q.select.len()).filter(|i| !q.select[*i].0.has_agg()).collect();
        let mut groups: BTreeMap<Vec<String>, (Vec<V>, Vec<&Row>)> = BTreeMap::new();
        let mut order_of_groups: Vec<Vec<String>> = vec![];
        for r in &kept {
            let mut kv = vec![];
            for i in &plain {
                kv.push(eval(&q.select[*i].0, r, two_valued)?);
            }
            let k: Vec<String> = kv.iter().map(v_key).collect();
            if !groups.contains_key(&k) {
                order_of_groups.push(k.clone());
            }
            groups.entry(k).or_insert_with(|| (kv, vec![])).1.push(r);
        }
        for k in order_of_groups {
            let (kv, rows) = &groups[&k];
            let mut row = vec![];
            let mut pi = 0;
            for (e, _) in &q.select {
                if e.has_agg() {
                    let (v, r) = eval_agg(e, rows, two_valued)?;
                    risky |= r;
                    row.push(v);
                } else {
                    row.push(kv[pi].clone());
                    pi += 1;
                }
            }
            // ORDER BY on a grouped query: keys must be select items (by expression)
            let mut key = vec![];
            for (oe, _) in &q.order {
                match q.select.iter().position(|(e, _)| e == oe) {
                    Some(i) => key.push(row[i].clone()),
                    None => return Err(EvalErr::Undefined),
                }
            }
            out.push((row, key));
        }
    } else {
        for r in &kept {
            let mut row = vec![];
            for (e, _) in &q.select {
                row.push(eval(e, r, two_valued)?);
            }
            let mut key = vec![];
            for (oe, _) in &q.order {
                key.push(eval(oe, r, two_valued)?);
            }
            out.push((row, key));
        }
    }
    if !q.order.is_empty() {
        out.sort_by(|a, b| key_cmp(&a.1, &b.1, &desc));
    }
    Ok(RefResult {
        has_sentinel: out.iter().any(|x| x.0.iter().any(|v| *v == V::I(i64::MAX as i128))),
        rows: out.iter().map(|x| x.0.clone()).collect(),
        keys: out.iter().map(|x| x.1.clone()).collect(),
        sum_order_sensitive: risky,
    })
}

/// Does a returned cell equal the reference value? Integers exact, floats with relative tolerance
/// `tol` (0.0 = bit exact except that an integer-valued float may come back as float of an int).
pub fn cell_eq(want: &V, got: &RVal, tol: f64) -> bool {
    // 2^63-1 is the engine's reserved NULL marker and not part of the value domain: not judged
    if let V::I(x) = want {
        if *x == i64::MAX as i128 {
            return true;
        }
    }
    match (want, got) {
        (V::Null, RVal::Null) => true,
        (V::I(a), RVal::Int(b)) => *a == *b as i128,
        (V::I(a), RVal::Float(b)) => (*a as f64) == f64::from_bits(*b),
        (V::F(a), RVal::Float(b)) => {
            let b = f64::from_bits(*b);
            if a.to_bits() == b.to_bits() || (a.is_nan() && b.is_nan()) {
                true
            } else if tol > 0.0 {
                (a - b).abs() <= tol * a.abs().max(b.abs()).max(1e-300)
            } else {
                *a == b
            }
        }
        (V::F(a), RVal::Int(b)) => *a == *b as f64,
        (V::S(a), RVal::Str(b)) => a == b,
        _ => false,
    }
}
