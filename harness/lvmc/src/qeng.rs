//! E-query: full products of (logical table, physical layout, query) against the reference
//! evaluator. Serves C04 (aggregates), C05 (ORDER BY / LIMIT / OFFSET), C06 (integer arithmetic).
use std::collections::{BTreeMap, BTreeSet};

use serde::{Deserialize, Serialize};
use serde_json::{json, Value};

use crate::c03::{norm_msg, shape};
use crate::common::*;
use crate::qtables::*;
use crate::refq::*;
use crate::runner::*;

#[derive(Clone, Copy, Debug, PartialEq, Eq, Serialize, Deserialize)]
pub enum Mode {
    /// rows must come back in reference order (ingestion order, no ORDER BY)
    Exact,
    /// ORDER BY semantics with ties, LIMIT / OFFSET window
    Ordered,
    /// rows compared as a multiset (grouped results without ORDER BY)
    Multiset,
}

#[derive(Clone, Debug, Serialize, Deserialize)]
pub struct QCase {
    pub table: usize,
    pub layout: usize,
    pub q: Q,
    pub mode: Mode,
    /// number of leading select items that are ORDER BY keys copies (Ordered mode): select = [id, keys..]
    pub nkeys: usize,
}

pub struct Suite {
    pub tables: Vec<LogicalTable>,
    /// layouts per table
    pub layouts: Vec<Vec<Layout>>,
    pub cases: Vec<QCase>,
}

fn limit_class(l: Option<u64>, n: usize) -> &'static str {
    match l {
        None => "none",
        Some(0) => "0",
        Some(x) if (x as usize) < n / 2 => "lt-half",
        Some(x) if (x as usize) < n => "lt-n",
        Some(x) if (x as usize) == n => "eq-n",
        Some(_) => "gt-n",
    }
}

pub fn q_shape(q: &Q, n: usize) -> String {
    let sel: Vec<String> = q.select.iter().map(|(e, _)| shape(e)).collect();
    let ord: Vec<String> = q.order.iter().map(|(e, d)| format!("{}{}", shape(e), if *d { "-" } else { "+" })).collect();
    format!(
        "sel[{}]{}{}{}{}",
        sel.join(","),
        q.filter.as_ref().map(|f| format!(" where {}", shape(f))).unwrap_or_default(),
        if ord.is_empty() { String::new() } else { format!(" order[{}]", ord.join(",")) },
        if q.limit.is_some() { format!(" limit:{}", limit_class(q.limit, n)) } else { String::new() },
        if q.offset.is_some() { format!(" offset:{}", limit_class(q.offset, n)) } else { String::new() },
    )
}

fn rows_to_keys(rows: &[Vec<V>]) -> Vec<String> {
    rows.iter().map(|r| r.iter().map(v_key).collect::<Vec<_>>().join("|")).collect()
}

fn rval_to_v(r: &RVal) -> V {
    V::from_rval(r)
}

/// Compare one query. Returns (outcome class, violation (kind, description)).
pub fn check_query(db: &mut Db, rt: &RefTable, c: &QCase, prop: &str) -> (String, Option<(String, String)>) {
    let sql = c.q.sql();
    let want = eval_query(&c.q, rt, false);
    let res = db.query(&sql);
    let panics = take_panics();
    let psite = panics.first().map(panic_site).unwrap_or_default();
    let n = rt.rows.len();
    match res {
        Outcome::Hang => return ("hang".into(), Some((format!("hang:{}", psite), format!("{} did not return; panics {:?}", sql, panics)))),
        Outcome::Panic(m) => return ("caller-panic".into(), Some(("caller-panic".into(), format!("{} panicked in the caller: {}", sql, m)))),
        Outcome::Ok(Err((kind, msg))) => {
            return match &want {
                Err(EvalErr::Overflow) => {
                    if kind == "Overflow" {
                        ("ok-overflow-error".into(), None)
                    } else if kind == "TypeError" || kind == "NotImplemented" {
                        // declined before evaluating: an error value, not a wrapped number
                        (format!("declined-{}", kind), None)
                    } else {
                        (
                            format!("overflow-as-{}", kind),
                            Some((
                                format!("overflow-reported-as:{}:{}:{}", kind, norm_msg(&msg), psite),
                                format!("{}: an integer result does not fit 64 bits, so the query must fail with Overflow; it failed with {}: {}; panics {:?}", sql, kind, msg, panics),
                            )),
                        )
                    }
                }
                Err(_) => (format!("ref-undefined/err-{}", kind), None),
                Ok(w) => {
                    if kind == "Overflow" && (w.sum_order_sensitive || w.has_sentinel) {
                        ("ok-overflow-order-sensitive".into(), None)
                    } else if kind == "TypeError" || kind == "NotImplemented" {
                        (format!("declined-{}", kind), None)
                    } else {
                        (
                            format!("err-{}", kind),
                            Some((
                                format!("error:{}:{}:{}", kind, norm_msg(&msg), psite),
                                format!("{} failed with {}: {}; panics {:?}; reference has {} rows", sql, kind, msg, panics, w.rows.len()),
                            )),
                        )
                    }
                }
            };
        }
        Outcome::Ok(Ok(out)) => {
            let w = match want {
                Err(EvalErr::Overflow) => {
                    return (
                        "overflow-not-reported".into(),
                        Some((
                            format!("overflow-not-reported:{}", q_shape(&c.q, n)),
                            format!("{}: an integer result does not fit 64 bits (or divides by zero), but the query returned rows {:?}", sql, out.rows.iter().take(6).collect::<Vec<_>>()),
                        )),
                    )
                }
                Err(_) => return ("ref-undefined/ok".into(), None),
                Ok(w) => w,
            };
            let tol = if c.q.has_aggregate() { 1e-9 } else { 0.0 };
            let ncols = c.q.select.len();
            if out.rows.iter().any(|r| r.len() != ncols) {
                return ("shape".into(), Some(("row-width".into(), format!("{} returned rows of width != {}", sql, ncols))));
            }
            let offset = c.q.offset.unwrap_or(0) as usize;
            let limit = c.q.limit.map(|l| l as usize).unwrap_or(usize::MAX);
            let total = w.rows.len();
            let exp_len = limit.min(total.saturating_sub(offset));
            if out.rows.len() != exp_len && c.mode != Mode::Multiset {
                return (
                    "rowcount".into(),
                    Some((
                        format!("rowcount:{}:{}", if out.rows.len() < exp_len { "fewer" } else { "more" }, q_shape(&c.q, n)),
                        format!("{} returned {} rows, expected {} (reference has {} rows before LIMIT/OFFSET)", sql, out.rows.len(), exp_len, total),
                    )),
                );
            }
            let row_eq = |want: &Vec<V>, got: &Vec<RVal>| want.iter().zip(got).all(|(a, b)| cell_eq(a, b, tol));
            match c.mode {
                Mode::Exact => {
                    for (i, got) in out.rows.iter().enumerate() {
                        let want = &w.rows[offset + i];
                        if !row_eq(want, got) {
                            let col = (0..ncols).find(|k| !cell_eq(&want[*k], &got[*k], tol)).unwrap();
                            return (
                                "cell".into(),
                                Some((
                                    format!("cell:{}:{}", shape(&c.q.select[col].0), q_shape(&c.q, n)),
                                    format!("{}: row {} = {:?}, expected {:?}", sql, i, got, want),
                                )),
                            );
                        }
                    }
                    (if exp_len == 0 { "ok-empty".into() } else { "ok".into() }, None)
                }
                Mode::Multiset => {
                    // grouped result: compare per group (key tuple = the non-aggregate select items)
                    let plain: Vec<usize> = (0..ncols).filter(|i| !c.q.select[*i].0.has_agg()).collect();
                    let special: Vec<String> = plain
                        .iter()
                        .map(|i| shape(&c.q.select[*i].0))
                        .filter(|s| {
                            let t = rt;
                            // keys that are nullable or absent in the table
                            !t.columns.contains(s) || t.rows.iter().any(|r| !r.contains_key(s))
                        })
                        .collect::<BTreeSet<_>>()
                        .into_iter()
                        .collect();
                    let keyset = format!("{{{}}}", special.join(","));
                    let key_eq = |want: &Vec<V>, got: &Vec<RVal>| plain.iter().all(|i| cell_eq(&want[*i], &got[*i], 0.0));
                    // duplicates among returned key tuples
                    for (i, a) in out.rows.iter().enumerate() {
                        for b in out.rows.iter().skip(i + 1) {
                            if plain.iter().all(|k| a[*k] == b[*k]) && !plain.is_empty() {
                                return (
                                    "dup-group".into(),
                                    Some((
                                        format!("dup-group:nullable-keys={}", keyset),
                                        format!("{} returned the group {:?} twice: {:?} and {:?}", sql, plain.iter().map(|k| a[*k].clone()).collect::<Vec<_>>(), a, b),
                                    )),
                                );
                            }
                        }
                    }
                    if out.rows.len() != exp_len {
                        return (
                            "rowcount".into(),
                            Some((
                                format!("group-count:{}:nullable-keys={}", if out.rows.len() < exp_len { "fewer" } else { "more" }, keyset),
                                format!("{} returned {} groups, expected {}: returned {:?}, reference {:?}", sql, out.rows.len(), exp_len, out.rows.iter().take(8).collect::<Vec<_>>(), w.rows.iter().take(8).collect::<Vec<_>>()),
                            )),
                        );
                    }
                    for got in &out.rows {
                        let want = match w.rows.iter().find(|want| key_eq(want, got)) {
                            Some(w) => w,
                            None => {
                                return (
                                    "group-unknown".into(),
                                    Some((
                                        format!("group-unknown:nullable-keys={}", keyset),
                                        format!("{} returned group {:?} which does not exist in the reference {:?}", sql, got, w.rows.iter().take(8).collect::<Vec<_>>()),
                                    )),
                                )
                            }
                        };
                        for i in 0..ncols {
                            if cell_eq(&want[i], &got[i], tol) {
                                continue;
                            }
                            let e = &c.q.select[i].0;
                            let kind = if matches!(e, E::Agg(Agg::Count, _)) && got[i] == RVal::Null && want[i] == V::I(0) {
                                "count-zero-as-null".to_string()
                            } else {
                                format!("agg-value:{}", shape(e))
                            };
                            return (
                                "group-row".into(),
                                Some((kind, format!("{}: group {:?}: {} = {:?}, expected {:?}", sql, plain.iter().map(|k| got[*k].clone()).collect::<Vec<_>>(), e.sql(), got[i], want[i]))),
                            );
                        }
                    }
                    (if exp_len == 0 { "ok-empty".into() } else if exp_len == 1 { "ok-one-group".into() } else { "ok-groups".into() }, None)
                }
                Mode::Ordered => {
                    // select = [id, key1.., other..]; keys at 1..=nkeys
                    let desc: Vec<bool> = c.q.order.iter().map(|(_, d)| *d).collect();
                    let got_keys: Vec<Vec<V>> = out.rows.iter().map(|r| r[1..1 + c.nkeys].iter().map(rval_to_v).collect()).collect();
                    for i in 0..exp_len {
                        let wk = &w.keys[offset + i];
                        if key_cmp(wk, &got_keys[i], &desc) != std::cmp::Ordering::Equal {
                            return (
                                "order".into(),
                                Some((
                                    format!("order:{}", q_shape(&c.q, n)),
                                    format!("{}: position {} has key {:?}, the sorted reference has {:?} there; returned {:?}", sql, i, got_keys[i], wk, out.rows),
                                )),
                            );
                        }
                    }
                    // every returned row must be a reference row, each used at most once
                    let mut pool: BTreeMap<String, usize> = BTreeMap::new();
                    for k in rows_to_keys(&w.rows) {
                        *pool.entry(k).or_insert(0) += 1;
                    }
                    for got in &out.rows {
                        let gv: Vec<V> = got.iter().map(rval_to_v).collect();
                        // find a reference row equal (with int/float leniency handled by cell_eq)
                        let k = rows_to_keys(&[gv.clone()])[0].clone();
                        let found = match pool.get_mut(&k) {
                            Some(c) if *c > 0 => {
                                *c -= 1;
                                true
                            }
                            _ => {
                                // slower path with cell_eq
                                let mut hit = None;
                                for (wk, cnt) in pool.iter_mut() {
                                    if *cnt == 0 {
                                        continue;
                                    }
                                    if let Some(wrow) = w.rows.iter().find(|r| rows_to_keys(&[(*r).clone()])[0] == *wk) {
                                        if row_eq(wrow, got) {
                                            hit = Some(wk.clone());
                                            *cnt -= 1;
                                            break;
                                        }
                                    }
                                }
                                hit.is_some()
                            }
                        };
                        if !found {
                            return (
                                "row-not-in-table".into(),
                                Some((
                                    format!("row-not-in-table:{}", q_shape(&c.q, n)),
                                    format!("{} returned row {:?} which is not a (remaining) row of the filtered table", sql, got),
                                )),
                            );
                        }
                    }
                    (if exp_len == 0 { "ok-empty".into() } else if exp_len == total { "ok-all".into() } else { "ok-window".into() }, None)
                }
            }
        }
    }
}

fn kind_head(kind: &str) -> String {
    // the part of a violation kind that does not depend on the query shape
    let mut parts = kind.split(':');
    let first = parts.next().unwrap_or("");
    match first {
        "error" | "overflow-reported-as" | "hang" => kind.to_string(),
        "rowcount" | "group-count" => format!("{}:{}", first, parts.next().unwrap_or("")),
        "agg-value" => kind.to_string(),
        _ => first.to_string(),
    }
}

/// One-step reductions of a query that keep it well formed for its comparison mode.
fn reductions(c: &QCase) -> Vec<QCase> {
    let mut out = vec![];
    let q = &c.q;
    if q.filter.is_some() {
        let mut r = c.clone();
        r.q.filter = None;
        out.push(r);
    }
    if q.limit.is_some() || q.offset.is_some() {
        let mut r = c.clone();
        r.q.limit = None;
        r.q.offset = None;
        out.push(r);
        if q.offset.is_some() && q.limit.is_some() {
            let mut r = c.clone();
            r.q.offset = None;
            out.push(r);
        }
    }
    match c.mode {
        Mode::Ordered => {
            // select = [id, key1..keyn]; drop key i together with its select copy
            if c.nkeys > 1 {
                for i in 0..c.nkeys {
                    let mut r = c.clone();
                    r.q.order.remove(i);
                    r.q.select.remove(1 + i);
                    r.nkeys -= 1;
                    out.push(r);
                }
            }
        }
        Mode::Exact | Mode::Multiset => {
            let n_agg = q.select.iter().filter(|(e, _)| e.has_agg()).count();
            for i in 0..q.select.len() {
                if q.select.len() == 1 {
                    break;
                }
                let is_agg = q.select[i].0.has_agg();
                if is_agg && n_agg == 1 {
                    continue; // keep the query an aggregate query
                }
                if c.mode == Mode::Exact && i == 0 {
                    continue; // keep the id column
                }
                let mut r = c.clone();
                r.q.select.remove(i);
                out.push(r);
            }
        }
    }
    out
}

/// Greedy reduction to a smaller query that fails in the same way (same kind head).
fn minimize(db: &mut Db, rt: &RefTable, c: &QCase, kind: &str, what: &str, prop: &str) -> (QCase, String, String) {
    let head = kind_head(kind);
    let mut cur = c.clone();
    let mut cur_kind = kind.to_string();
    let mut cur_what = what.to_string();
    let mut budget = 60;
    'outer: loop {
        for r in reductions(&cur) {
            if budget == 0 {
                break 'outer;
            }
            budget -= 1;
            if db.dead {
                break 'outer;
            }
            let (_, bad) = check_query(db, rt, &r, prop);
            if let Some((k, w)) = bad {
                if kind_head(&k) == head {
                    cur = r;
                    cur_kind = k;
                    cur_what = w;
                    continue 'outer;
                }
            }
        }
        break;
    }
    (cur, cur_kind, cur_what)
}

fn e_cols(e: &E, out: &mut BTreeSet<String>) {
    match e {
        E::Col(c) => {
            out.insert(c.clone());
        }
        E::Int(_) | E::Float(_) | E::Str(_) => {}
        E::Bin(_, a, b) => {
            e_cols(a, out);
            e_cols(b, out);
        }
        E::Not(a) | E::Neg(a) | E::IsNull(a) | E::IsNotNull(a) | E::Length(a) | E::Agg(_, a) => e_cols(a, out),
        E::Like(a, _) | E::NotLike(a, _) | E::Regex(a, _) => e_cols(a, out),
    }
}

/// What the physical layout contributes to a failure of query `q`: one piece, several pieces, or
/// several pieces of which one holds a referenced column entirely NULL (that column is then
/// missing / of type Null in that piece while it has values elsewhere).
pub fn layout_trait(t: &LogicalTable, l: &Layout, q: &Q) -> String {
    let pieces: Vec<(usize, usize)> = {
        let mut v = vec![];
        let mut from = 0;
        for n in &l.batches {
            if *n > 0 {
                v.push((from, from + n));
            }
            from += n;
        }
        v
    };
    if pieces.len() <= 1 {
        return "P1".into();
    }
    let mut cols = BTreeSet::new();
    for (e, _) in &q.select {
        e_cols(e, &mut cols);
    }
    if let Some(f) = &q.filter {
        e_cols(f, &mut cols);
    }
    for (e, _) in &q.order {
        e_cols(e, &mut cols);
    }
    let mut allnull = vec![];
    for c in &cols {
        let somewhere = t.rows.iter().any(|r| r.contains_key(c));
        if somewhere && pieces.iter().any(|(a, b)| (*a..*b).all(|i| !t.rows[i].contains_key(c))) {
            allnull.push(c.clone());
        }
    }
    if allnull.is_empty() {
        "Pn".into()
    } else {
        format!("Pn-allnull{{{}}}", allnull.join(","))
    }
}

/// Signature of a violation of a grouped query: the failing oracle (which already names the
/// aggregate or the nullable keys involved), whether the *reduced* query counts a nullable column,
/// and the layout trait. A recorded finding thereby names its specific trigger; getting the same
/// aggregate wrong in any other way (no COUNT over a nullable column in the reduced query, a single
/// piece, no piece in which a referenced column is entirely NULL) has a different signature.
fn refine_sig(prop: &str, kind: &str, c: &QCase, t: &LogicalTable, l: &Layout) -> String {
    if c.mode != Mode::Multiset {
        return format!("{}:{}", prop, kind);
    }
    fn counted(e: &E, out: &mut BTreeSet<String>) {
        match e {
            E::Agg(Agg::Count, a) => e_cols(a, out),
            E::Agg(_, _) | E::Col(_) | E::Int(_) | E::Float(_) | E::Str(_) => {}
            E::Bin(_, a, b) => {
                counted(a, out);
                counted(b, out);
            }
            E::Not(a) | E::Neg(a) | E::IsNull(a) | E::IsNotNull(a) | E::Length(a) => counted(a, out),
            E::Like(a, _) | E::NotLike(a, _) | E::Regex(a, _) => counted(a, out),
        }
    }
    let mut cn = BTreeSet::new();
    for (e, _) in &c.q.select {
        counted(e, &mut cn);
    }
    let cn: Vec<String> = cn.into_iter().filter(|col| t.rows.iter().any(|r| !r.contains_key(col))).collect();
    let cn = if cn.is_empty() { String::new() } else { format!(":count-nullable{{{}}}", cn.join(",")) };
    // grouping keys whose value range makes them a 4-byte stored section (those are compressed, and the
    // planner confuses the type of the compressed section with the type of its elements)
    let mut u32keys = vec![];
    for (e, _) in &c.q.select {
        if let E::Col(name) = e {
            let vals: Vec<i64> = t.rows.iter().filter_map(|r| match r.get(name) { Some(RVal::Int(x)) => Some(*x), _ => None }).collect();
            if let (Some(min), Some(max)) = (vals.iter().min(), vals.iter().max()) {
                let width = (*max as i128) - (*min as i128);
                if width >= 65536 && width < (1i128 << 32) && c.q.select.iter().filter(|(e, _)| !e.has_agg()).count() >= 2 {
                    u32keys.push(name.clone());
                }
            }
        }
    }
    let u32keys = if u32keys.is_empty() { String::new() } else { format!(":u32-keys{{{}}}", u32keys.join(",")) };
    format!("{}:{}{}{}:{}", prop, kind, cn, u32keys, layout_trait(t, l, &c.q)).replace(' ', "_")
}

pub struct QueryEngine {
    pub prop: &'static str,
    pub suite: fn(Tier) -> Suite,
    pub rule: &'static str,
    pub assumptions: &'static [&'static str],
}

impl Engine for QueryEngine {
    fn property(&self) -> &'static str {
        self.prop
    }

    fn describe(&self, tier: Tier) -> Describe {
        let s = (self.suite)(tier);
        let mut layouts = vec![];
        for (ti, ls) in s.layouts.iter().enumerate() {
            for l in ls {
                layouts.push(format!("{}/{}", s.tables[ti].name, l.name));
            }
        }
        Describe {
            level: "model_checking",
            rule: self.rule.to_string(),
            assumptions: self.assumptions.iter().map(|s| s.to_string()).collect(),
            bounds: json!({"cases": s.cases.len(), "layouts": layouts, "tables": s.tables.iter().map(|t| json!({"name": t.name, "rows": t.rows.len(), "columns": t.columns})).collect::<Vec<_>>()}),
            states_meaning: "distinct (table, layout, query) triples evaluated",
        }
    }

    fn run_shard(&self, tier: Tier, shard: usize, nshards: usize, out: &mut ShardResult) {
        let s = (self.suite)(tier);
        // group cases by (table, layout)
        let mut groups: BTreeMap<(usize, usize), Vec<&QCase>> = BTreeMap::new();
        for (i, c) in s.cases.iter().enumerate() {
            if i % nshards == shard {
                groups.entry((c.table, c.layout)).or_default().push(c);
            }
        }
        for ((ti, li), cases) in groups {
            let t = &s.tables[ti];
            let l = &s.layouts[ti][li];
            let rt = t.ref_table();
            let mut db = match build(t, l) {
                Ok(db) => db,
                Err(e) => {
                    let panics = take_panics();
                    out.violation(Violation {
                        sig: format!("build:{}:{}:{}", l.name, if e.contains("deadline") { "hang" } else { "failed" }, panics.first().map(panic_site).unwrap_or_default()),
                        what: format!("building layout {} of table {} failed: {}; panics {:?}", l.name, t.name, e, panics),
                        weight: 1,
                        case: serde_json::to_value(cases[0]).unwrap(),
                    });
                    continue;
                }
            };
            let mut shape_seen = BTreeSet::new();
            for c in cases {
                out.evaluations += 1;
                out.transitions += 1;
                let (class, bad) = check_query(&mut db, &rt, c, self.prop);
                let sql = c.q.sql();
                out.states.insert(hash64(format!("{}|{}|{}", ti, li, sql).as_bytes()));
                if class.starts_with("ok") && class != "ok-empty" {
                    out.nontrivial.insert(hash64(format!("{}|{}", ti, sql).as_bytes()));
                }
                if out.samples.len() < 3 && shape_seen.insert(q_shape(&c.q, rt.rows.len())) && class.starts_with("ok") && sql.len() > 40 {
                    out.sample(json!({"table": t.name, "layout": l.name, "query": sql, "outcome": class}));
                }
                out.outcome(&class);
                if let Some((kind, what)) = bad {
                    // attribute the failure to the smallest query that fails the same way
                    let (mc, kind, what) = minimize(&mut db, &rt, c, &kind, &what, self.prop);
                    if std::env::var("LVMC_TRACE").is_ok() {
                        eprintln!("[trace] {}/{} :: {} :: {}", t.name, l.name, kind, what);
                    }
                    out.violation(Violation {
                        sig: refine_sig(self.prop, &kind, &mc, t, l),
                        what: format!("table {} layout {}: {}", t.name, l.name, what),
                        weight: mc.q.sql().len() as u64,
                        case: serde_json::to_value(&mc).unwrap(),
                    });
                    if db.dead || class == "err-Canceled" || class == "hang" || class == "caller-panic" || class.starts_with("overflow-as-") {
                        let fresh = build(t, l);
                        let old = std::mem::replace(
                            &mut db,
                            match fresh {
                                Ok(d) => d,
                                Err(_) => break,
                            },
                        );
                        old.destroy();
                        out.count("databases_rebuilt_after_failure", 1);
                    }
                }
            }
            db.destroy();
        }
    }

    fn replay(&self, case: &Value) -> Option<Violation> {
        let c: QCase = serde_json::from_value(case.clone()).expect("query case");
        // the suite is needed only for tables and layouts
        let s = (self.suite)(Tier::Thorough);
        let t = &s.tables[c.table];
        let l = &s.layouts[c.table][c.layout];
        let mut db = match build(t, l) {
            Ok(db) => db,
            Err(e) => {
                let panics = take_panics();
                return Some(Violation {
                    sig: format!("build:{}:{}", l.name, panics.first().map(panic_site).unwrap_or_default()),
                    what: e,
                    weight: 1,
                    case: case.clone(),
                });
            }
        };
        let (_, bad) = check_query(&mut db, &t.ref_table(), &c, self.prop);
        db.destroy();
        bad.map(|(kind, what)| Violation {
            sig: refine_sig(self.prop, &kind, &c, t, l),
            what,
            weight: 1,
            case: case.clone(),
        })
    }
}

// ---------------------------------------------------------------------------------------------
// Layout families
// ---------------------------------------------------------------------------------------------

pub fn std_layouts(n: usize) -> Vec<Layout> {
    let base = DbOpts::default();
    let third = n / 3;
    vec![
        Layout {
            name: "one-partition".into(),
            batches: vec![n],
            flush_after: vec![true],
            omit_null_cols: false,
            opts: base.clone(),
            post: vec![],
        },
        Layout {
            name: "two-partitions".into(),
            batches: vec![n / 2, n - n / 2],
            flush_after: vec![true, true],
            omit_null_cols: true,
            opts: DbOpts {
                partition_combine_factor: 999,
                threads: 2,
                ..base.clone()
            },
            post: vec![],
        },
        Layout {
            name: "three-partitions-cold".into(),
            batches: vec![third, n - 2 * third, third],
            flush_after: vec![true, true, true],
            omit_null_cols: true,
            opts: DbOpts {
                partition_combine_factor: 999,
                batch_size: 8,
                ..base.clone()
            },
            post: vec![Post::Restart],
        },
        Layout {
            name: "partition-plus-buffer".into(),
            batches: vec![n - 3, 3],
            flush_after: vec![true, false],
            omit_null_cols: false,
            opts: DbOpts {
                mem_lz4: false,
                ..base.clone()
            },
            post: vec![],
        },
    ]
}

// ---------------------------------------------------------------------------------------------
// C05
// ---------------------------------------------------------------------------------------------

fn c05_table(n: usize) -> LogicalTable {
    let ival = [3i64, 1, 2, 3, 1, 5, 2, 3, 0, 4];
    let nival = [Some(7i64), None, Some(-2), Some(7), None, Some(0), Some(-2), None, Some(100), Some(7)];
    let fval = [1.5, -0.5, 1.5, 2.25, 0.0, -3.0, 1.5, 10.0, 0.0, 2.25];
    let nfval = [None, Some(2.5), Some(-1.0), None, Some(2.5), Some(0.5), None, Some(-1.0), Some(9.0), Some(2.5)];
    let sval = ["pear", "apple", "fig", "pear", "apple", "kiwi", "fig", "zebra", "", "apple"];
    let nsval = [Some("m"), None, Some("a"), Some("m"), None, Some("z"), None, Some("a"), Some(""), Some("m")];
    let mval = [70000i64, 0, 4294967295, 65536, 0, 70000, 4294967000, 1, 65535, 70000];
    let wval = [1i64 << 62, -(1 << 62), 0, i64::MIN + 1, 1 << 62, 7, -5, i64::MAX - 30, 0, 3037000500];
    let nwval = [Some(1i64 << 61), None, Some(-(1 << 61)), None, Some(0), Some(1 << 61), Some(i64::MIN + 40), None, Some(9), Some(-(1 << 61))];
    let k = |i: usize| i % 10;
    LogicalTable::new(
        "t",
        vec![
            ("id", (0..n).map(|i| ri(i as i64)).collect()),
            ("i", (0..n).map(|i| ri(ival[k(i)] + (i / 10) as i64)).collect()),
            ("ni", (0..n).map(|i| nival[k(i)].map(|x| ri(x + (i / 10) as i64)).unwrap_or(RVal::Null)).collect()),
            ("f", (0..n).map(|i| rf(fval[k(i)] + (i / 10) as f64)).collect()),
            ("nf", (0..n).map(|i| nfval[k(i)].map(|x| rf(x - (i / 10) as f64)).unwrap_or(RVal::Null)).collect()),
            ("s", (0..n).map(|i| rs(&format!("{}{}", sval[k(i)], if i >= 10 { "x" } else { "" }))).collect()),
            ("ns", (0..n).map(|i| nsval[k(i)].map(rs).unwrap_or(RVal::Null)).collect()),
            // keys stored as u32 / compressed sections, full-width i64, nullable full-width
            ("m", (0..n).map(|i| ri(mval[k(i)] + (i / 10) as i64)).collect()),
            ("w", (0..n).map(|i| ri(wval[k(i)] + (i / 10) as i64)).collect()),
            ("nw", (0..n).map(|i| nwval[k(i)].map(|x| ri(x - (i / 10) as i64)).unwrap_or(RVal::Null)).collect()),
        ],
    )
}

pub fn c05_suite(tier: Tier) -> Suite {
    // table indices are the same in both tiers (replay looks tables up in the thorough suite)
    let sizes: Vec<usize> = vec![10, 24];
    let mut tables = vec![];
    let mut layouts = vec![];
    let mut cases = vec![];
    for (ti, n) in sizes.iter().enumerate() {
        let n = *n;
        tables.push(c05_table(n));
        layouts.push(std_layouts(n));
        if tier == Tier::Quick && n != 10 {
            continue;
        }
        let keys: Vec<E> = vec![
            col("i"),
            col("ni"),
            col("f"),
            col("nf"),
            col("s"),
            col("ns"),
            bin(BinOp::Add, col("i"), col("ni")),
            col("absent"),
            col("m"),
            col("w"),
            col("nw"),
        ];
        let mut keylists: Vec<Vec<(E, bool)>> = vec![];
        for k in &keys {
            keylists.push(vec![(k.clone(), false)]);
            keylists.push(vec![(k.clone(), true)]);
        }
        // covering set of two-key lists: every ordered pair of distinct base columns, direction patterns alternate
        let base = [col("i"), col("ni"), col("f"), col("nf"), col("s"), col("ns"), col("m"), col("w"), col("nw")];
        let mut flip = 0;
        for a in 0..base.len() {
            for b in 0..base.len() {
                if a == b {
                    continue;
                }
                let dirs = [(false, false), (false, true), (true, false), (true, true)];
                if tier == Tier::Thorough {
                    for d in dirs {
                        keylists.push(vec![(base[a].clone(), d.0), (base[b].clone(), d.1)]);
                    }
                } else {
                    let d = dirs[flip % 4];
                    flip += 1;
                    keylists.push(vec![(base[a].clone(), d.0), (base[b].clone(), d.1)]);
                }
            }
        }
        keylists.push(vec![(col("i"), false), (col("ns"), true), (col("f"), false)]);
        keylists.push(vec![(col("s"), true), (col("ni"), false), (col("nf"), true)]);
        for (ki, kl) in keylists.iter().enumerate() {
            let mut select = vec![col("id")];
            for (k, _) in kl {
                select.push(k.clone());
            }
            let windows: Vec<(Option<u64>, Option<u64>)> = if kl.len() == 1 {
                let mut w = vec![(None, None)];
                for l in 0..=(n as u64 + 2) {
                    for o in 0..=(n as u64 + 2) {
                        if n > 12 && !(l <= 3 || l >= n as u64 - 1 || l % 5 == 0 || (l as usize >= n / 6 - 1 && l as usize <= n / 6 + 1) || (l as usize >= n / 2 - 1 && l as usize <= n / 2 + 1)) {
                            continue;
                        }
                        if n > 12 && !(o <= 2 || o >= n as u64 - 1 || o % 7 == 0) {
                            continue;
                        }
                        w.push((Some(l), if o == 0 && l % 2 == 0 { None } else { Some(o) }));
                    }
                }
                w
            } else {
                let n = n as u64;
                vec![(None, None), (Some(1), None), (Some(3), Some(2)), (Some(n / 2), Some(1)), (Some(n), Some(n - 1)), (Some(n + 1), None), (Some(2), Some(n + 1))]
            };
            for (l, o) in windows {
                for li in 0..4 {
                    // spread two-key lists over layouts in quick mode
                    if tier == Tier::Quick && kl.len() > 1 && (ki + li) % 2 == 1 {
                        continue;
                    }
                    let mut q = Q::select("t", select.clone());
                    q.order = kl.clone();
                    q.limit = l;
                    q.offset = o;
                    cases.push(QCase { table: ti, layout: li, q, mode: Mode::Ordered, nkeys: kl.len() });
                }
            }
        }
        // no ORDER BY: ingestion order, with windows and with a filter
        for l in [None, Some(0u64), Some(1), Some(n as u64 / 2), Some(n as u64), Some(n as u64 + 2)] {
            for o in [None, Some(0u64), Some(1), Some(n as u64 - 1), Some(n as u64), Some(n as u64 + 1)] {
                for li in 0..4 {
                    let mut q = Q::select("t", vec![col("id"), col("s"), col("ni")]);
                    q.limit = l;
                    q.offset = o;
                    cases.push(QCase { table: ti, layout: li, q: q.clone(), mode: Mode::Exact, nkeys: 0 });
                    let q2 = q.filter(bin(BinOp::Gt, col("i"), E::Int(1)));
                    cases.push(QCase { table: ti, layout: li, q: q2, mode: Mode::Exact, nkeys: 0 });
                }
            }
        }
        // ORDER BY with a filter
        for (k, d) in [(col("i"), false), (col("ns"), true), (col("f"), true)] {
            for li in 0..4 {
                let mut q = Q::select("t", vec![col("id"), k.clone()]).filter(bin(BinOp::Lt, col("id"), E::Int(n as i64 - 2)));
                q.order = vec![(k.clone(), d)];
                q.limit = Some(4);
                q.offset = Some(1);
                cases.push(QCase { table: ti, layout: li, q, mode: Mode::Ordered, nkeys: 1 });
            }
        }
    }
    // streamed top-n: a 40-row table in one partition read in streaming batches of 8 / 16 rows, so that
    // the top-n heap (capacity LIMIT + OFFSET < 20 = half the partition) fills over several batches
    // and keeps being updated by later ones; every single key x direction x windows around the
    // batch sizes
    {
        let n = 40usize;
        let ti = tables.len();
        tables.push(c05_table(n));
        let mk = |bs: usize, parts: Vec<usize>| Layout {
            name: format!("bs{}-{:?}", bs, parts),
            flush_after: vec![true; parts.len()],
            batches: parts,
            omit_null_cols: false,
            opts: DbOpts { batch_size: bs, partition_combine_factor: 999, ..DbOpts::default() },
            post: vec![],
        };
        layouts.push(vec![mk(8, vec![n]), mk(16, vec![n]), mk(8, vec![n - 3, 3])]);
        for k in ["i", "ni", "f", "nf", "s", "ns", "m", "w", "nw"] {
            for desc in [false, true] {
                for (l, o) in [(7u64, 0u64), (8, 0), (9, 0), (5, 4), (1, 8), (15, 2), (17, 0), (3, 16), (19, 0), (10, 9)] {
                    for li in 0..3 {
                        let mut q = Q::select("t", vec![col("id"), col(k)]);
                        q.order = vec![(col(k), desc)];
                        q.limit = Some(l);
                        q.offset = if o == 0 { None } else { Some(o) };
                        cases.push(QCase { table: ti, layout: li, q, mode: Mode::Ordered, nkeys: 1 });
                    }
                }
            }
        }
    }
    Suite { tables, layouts, cases }
}

// ---------------------------------------------------------------------------------------------
// C06
// ---------------------------------------------------------------------------------------------

fn c06_table() -> LogicalTable {
    // 8 rows; every column sits at the edges of its storage width
    LogicalTable::new(
        "t",
        vec![
            ("id", ints(&[0, 1, 2, 3, 4, 5, 6, 7])),
            ("b", ints(&[0, 1, 2, 127, 128, 254, 255, 3])),                       // u8, no offset
            ("o", ints(&[-100, -99, 0, 50, 100, 154, 155, -1])),                  // u8 with negative offset
            ("h", ints(&[0, 1, 255, 256, 32767, 32768, 65535, 2])),               // u16
            ("m", ints(&[0, 65536, 2147483647, 2147483648, 4294967295, 1, 2, 3])), // u32
            (
                "w",
                ints(&[i64::MIN + 1, -(1 << 62), -1, 0, 1, 1 << 62, i64::MAX - 1, 3037000500]),
            ), // full width
            (
                "nb",
                opt_ints(&[Some(0), None, Some(255), Some(1), None, Some(254), Some(2), None]),
            ),
            (
                "nw",
                opt_ints(&[None, Some(i64::MIN + 1), Some(i64::MAX - 1), None, Some(-1), Some(1 << 62), None, Some(0)]),
            ),
            ("z", ints(&[0, 0, 0, 0, 0, 0, 0, 0])),
            // the most negative value itself (its negation, its quotient by -1 and its absolute value do not exist)
            ("x", ints(&[i64::MIN, 10, -10, i64::MIN, 7, -7, 1, i64::MIN])),
        ],
    )
}

fn c06_sum_tables() -> Vec<LogicalTable> {
    let big = i64::MAX - 10;
    let sets: Vec<(&str, Vec<i64>)> = vec![
        // overflow inside one partition as well as when merged
        ("ovf_all", vec![big, big, big, big, big, big]),
        // each half fits, the total does not
        ("ovf_merge", vec![1 << 62, 5, 7, 1 << 62, 9, 11]),
        // prefix overflows, total fits
        ("prefix", vec![big, big, 1, -big, -big, 2]),
        // negative cancellation
        ("cancel", vec![i64::MIN + 1, big, i64::MIN + 1, big, 3, 4]),
        // small values
        ("small", vec![1, 2, 3, 4, 5, 6]),
        // negative overflow
        ("neg_ovf", vec![i64::MIN + 1, i64::MIN + 1, -5, -6, 0, 1]),
    ];
    sets.into_iter()
        .map(|(name, vals)| {
            LogicalTable::new(
                name,
                vec![
                    ("id", ints(&[0, 1, 2, 3, 4, 5])),
                    ("g", ints(&[0, 1, 0, 1, 0, 1])),
                    ("v", ints(&vals)),
                    (
                        "nv",
                        vals.iter().enumerate().map(|(i, v)| if i == 2 { RVal::Null } else { ri(*v) }).collect(),
                    ),
                ],
            )
        })
        .collect()
}

fn split_layouts(n: usize) -> Vec<Layout> {
    // all splits of n rows into <= 3 partitions
    let base = DbOpts {
        partition_combine_factor: 999,
        ..DbOpts::default()
    };
    let mut out = vec![Layout {
        name: format!("split-{}", n),
        batches: vec![n],
        flush_after: vec![true],
        omit_null_cols: false,
        opts: base.clone(),
        post: vec![],
    }];
    for a in 1..n {
        out.push(Layout {
            name: format!("split-{}-{}", a, n - a),
            batches: vec![a, n - a],
            flush_after: vec![true, true],
            omit_null_cols: false,
            opts: base.clone(),
            post: vec![],
        });
        for b in 1..(n - a) {
            out.push(Layout {
                name: format!("split-{}-{}-{}", a, b, n - a - b),
                batches: vec![a, b, n - a - b],
                flush_after: vec![true, true, true],
                omit_null_cols: false,
                opts: base.clone(),
                post: vec![],
            });
        }
    }
    out
}

const ARITH: [BinOp; 5] = [BinOp::Add, BinOp::Sub, BinOp::Mul, BinOp::Div, BinOp::Mod];

pub fn c06_suite(tier: Tier) -> Suite {
    let mut tables = vec![c06_table()];
    let mut layouts = vec![std_layouts(8)];
    let mut cases = vec![];
    let cols: Vec<E> = ["b", "o", "h", "m", "w", "nb", "nw", "z", "x"].iter().map(|c| col(c)).collect();
    let consts: Vec<E> = [0i64, 1, -1, 2, 10, 255, 256, 65536, i64::MAX - 1, i64::MIN + 1].iter().map(|k| E::Int(*k)).collect();
    let mut leaves = cols.clone();
    leaves.extend(consts.clone());
    // depth 1: leaf op leaf (at least one column)
    let mut d1: Vec<E> = vec![];
    for op in ARITH {
        for (i, a) in leaves.iter().enumerate() {
            for (j, b) in leaves.iter().enumerate() {
                if i >= cols.len() && j >= cols.len() {
                    continue;
                }
                d1.push(bin(op, a.clone(), b.clone()));
            }
        }
    }
    let mut exprs = d1.clone();
    // depth 2: (leaf op leaf) op leaf and leaf op (leaf op leaf) over a reduced leaf set
    let red_cols: Vec<E> = ["b", "o", "w", "nb", "nw"].iter().map(|c| col(c)).collect();
    let red_consts: Vec<E> = [1i64, -1, 2, i64::MAX - 1].iter().map(|k| E::Int(*k)).collect();
    let mut red = red_cols.clone();
    red.extend(red_consts);
    let outer_ops: Vec<BinOp> = if tier == Tier::Quick { vec![BinOp::Add, BinOp::Mul, BinOp::Div] } else { ARITH.to_vec() };
    let inner_ops: Vec<BinOp> = if tier == Tier::Quick { vec![BinOp::Sub, BinOp::Mul, BinOp::Mod] } else { ARITH.to_vec() };
    for o1 in &outer_ops {
        for o2 in &inner_ops {
            for a in &red_cols {
                for b in &red {
                    for c in &red {
                        exprs.push(bin(*o1, bin(*o2, a.clone(), b.clone()), c.clone()));
                        if tier == Tier::Thorough {
                            exprs.push(bin(*o1, c.clone(), bin(*o2, a.clone(), b.clone())));
                        }
                    }
                }
            }
        }
    }
    // depth 3 over a small leaf set: balanced (a . b) . (c . d) and left-deep ((a . b) . c) . d
    {
        let c3: Vec<E> = ["b", "w", "nb"].iter().map(|c| col(c)).collect();
        let mut l3 = c3.clone();
        l3.extend([2i64, -1, i64::MAX - 1].iter().map(|k| E::Int(*k)));
        let d3: Vec<E> = vec![col("o"), col("nw"), E::Int(2), E::Int(-1)];
        let ops3: Vec<BinOp> = if tier == Tier::Quick { vec![BinOp::Add, BinOp::Mul, BinOp::Mod] } else { ARITH.to_vec() };
        for o1 in &ops3 {
            for o2 in &ops3 {
                for o3 in &ops3 {
                    for a in &c3 {
                        for b in &l3 {
                            for c in &c3 {
                                for d in &d3 {
                                    exprs.push(bin(*o3, bin(*o1, a.clone(), b.clone()), bin(*o2, c.clone(), d.clone())));
                                    if tier == Tier::Thorough {
                                        exprs.push(bin(*o3, bin(*o2, bin(*o1, a.clone(), b.clone()), c.clone()), d.clone()));
                                    }
                                }
                            }
                        }
                    }
                }
            }
        }
    }
    exprs.push(E::Neg(Box::new(col("w"))));
    exprs.push(E::Neg(Box::new(col("o"))));
    exprs.push(E::Neg(Box::new(col("nw"))));
    exprs.push(E::Neg(Box::new(col("x"))));
    for (i, e) in exprs.iter().enumerate() {
        // projection on a rotating layout (all layouts in thorough)
        for li in 0..4 {
            if tier == Tier::Quick && li != i % 4 {
                continue;
            }
            cases.push(QCase {
                table: 0,
                layout: li,
                q: Q::select("t", vec![col("id"), e.clone()]),
                mode: Mode::Exact,
                nkeys: 0,
            });
        }
    }
    // arithmetic as aggregate argument, as filter operand and over aggregates (depth-1 expressions only)
    for (i, e) in d1.iter().enumerate() {
        if i % 3 != 0 && tier == Tier::Quick {
            continue;
        }
        let li = i % 4;
        cases.push(QCase { table: 0, layout: li, q: Q::select("t", vec![agg(Agg::Sum, e.clone())]), mode: Mode::Multiset, nkeys: 0 });
        cases.push(QCase { table: 0, layout: li, q: Q::select("t", vec![agg(Agg::Max, e.clone()), agg(Agg::Count, E::Int(1))]), mode: Mode::Multiset, nkeys: 0 });
        cases.push(QCase { table: 0, layout: li, q: Q::select("t", vec![col("id")]).filter(bin(BinOp::Gt, e.clone(), E::Int(0))), mode: Mode::Exact, nkeys: 0 });
    }
    // SUM: value multisets x all splits into <= 3 partitions x grouped / ungrouped, and expressions over sums
    for t in c06_sum_tables() {
        let ti = tables.len();
        tables.push(t);
        let ls = split_layouts(6);
        let nl = ls.len();
        layouts.push(ls);
        for li in 0..nl {
            for v in ["v", "nv"] {
                cases.push(QCase { table: ti, layout: li, q: Q::select(&tables[ti].name.clone(), vec![agg(Agg::Sum, col(v))]), mode: Mode::Multiset, nkeys: 0 });
                cases.push(QCase { table: ti, layout: li, q: Q::select(&tables[ti].name.clone(), vec![col("g"), agg(Agg::Sum, col(v)), agg(Agg::Count, col(v))]), mode: Mode::Multiset, nkeys: 0 });
                cases.push(QCase { table: ti, layout: li, q: Q::select(&tables[ti].name.clone(), vec![bin(BinOp::Add, agg(Agg::Sum, col(v)), agg(Agg::Sum, col(v)))]), mode: Mode::Multiset, nkeys: 0 });
                cases.push(QCase { table: ti, layout: li, q: Q::select(&tables[ti].name.clone(), vec![bin(BinOp::Mul, agg(Agg::Sum, col(v)), E::Int(2)), agg(Agg::Max, col(v))]), mode: Mode::Multiset, nkeys: 0 });
                cases.push(QCase { table: ti, layout: li, q: Q::select(&tables[ti].name.clone(), vec![agg(Agg::Avg, col(v))]), mode: Mode::Multiset, nkeys: 0 });
            }
        }
    }
    Suite { tables, layouts, cases }
}

// ---------------------------------------------------------------------------------------------
// C04
// ---------------------------------------------------------------------------------------------

fn c04_table() -> LogicalTable {
    LogicalTable::new(
        "t",
        vec![
            ("id", ints(&[0, 1, 2, 3, 4, 5, 6, 7, 8, 9, 10, 11])),
            ("k", ints(&[1, 2, 1, 3, 2, 1, 3, 3, 1, 2, 2, 1])), // small int key
            (
                "nk",
                opt_ints(&[Some(5), None, Some(5), Some(6), None, Some(7), Some(6), None, Some(5), Some(7), None, Some(5)]),
            ),
            ("s", strs(&["a", "b", "b", "c", "a", "a", "c", "b", "a", "c", "b", "a"])),
            (
                "ns",
                opt_strs(&[Some("x"), None, Some("y"), Some("x"), None, Some("y"), None, Some("x"), Some("y"), None, Some("x"), Some("y")]),
            ),
            ("fk", floats(&[0.5, 1.5, 0.5, 1.5, 0.5, 2.0, 2.0, 0.5, 1.5, 2.0, 0.5, 1.5])),
            (
                "wk",
                ints(&[1 << 40, -(1 << 40), 1 << 40, 7, -(1 << 40), 7, 1 << 40, 7, 7, -(1 << 40), 1 << 40, 7]),
            ), // wide range key (hash grouping)
            ("v", ints(&[10, 20, 30, 40, 50, 60, 70, 80, 90, 100, 110, 120])),
            (
                "nv",
                opt_ints(&[Some(1), None, Some(3), None, Some(5), Some(6), None, Some(8), Some(9), None, Some(11), Some(12)]),
            ),
            ("fv", floats(&[0.25, 1.5, -2.0, 3.75, 0.1, 0.2, 0.3, 10.0, -0.5, 2.5, 1e6, 1e-6])),
            (
                "nfv",
                opt_floats(&[None, Some(1.5), None, Some(3.5), Some(0.5), None, Some(2.5), None, Some(-1.5), Some(4.0), None, Some(0.0)]),
            ),
        ],
    )
}

/// Second C04 table: grouping keys whose value *ranges* sit at the boundaries the planner looks at
/// (bits(max), bits(max - min), offset subtraction, 16-bit array-vs-hash threshold of the packed key,
/// 63-bit limit of the packed key). Every column has both extremes in different partitions of the
/// multi-partition layouts, so that partitions pick different encodings for the same key.
fn c04_range_table() -> LogicalTable {
    let rep = |a: i64, b: i64, c: i64| -> Vec<RVal> { ints(&[a, b, a, c, b, c, a, b, c, a, b, c]) };
    LogicalTable::new(
        "r",
        vec![
            ("id", ints(&[0, 1, 2, 3, 4, 5, 6, 7, 8, 9, 10, 11])),
            ("a8", rep(0, 255, 7)),                         // u8, 8 bits
            ("b8", ints(&[255, 0, 0, 255, 3, 3, 0, 255, 3, 0, 255, 3])), // u8, other grouping than a8
            ("o8", rep(1000, 1255, 1100)),                  // u8 + offset (bits(max) - bits(max-min) > 1)
            ("c9", rep(0, 256, 9)),                         // 9 bits
            ("d16", rep(0, 65535, 5)),                      // max = 2^16 - 1: array grouping
            ("e17", rep(0, 65536, 5)),                      // max = 2^16: hash grouping
            ("m1", rep(-1, 254, 0)),                        // negative minimum
            ("g32", rep(0, 4294967295, 17)),                // 32 bits
            ("h33", rep(0, 4294967296, 17)),                // 33 bits
            ("w62", rep(0, 1 << 62, 3)),                    // 63 bits on its own
            ("full", rep(i64::MIN + 1, i64::MAX - 1, 0)),   // max - min does not fit i64
            (
                "n8",
                opt_ints(&[Some(0), None, Some(255), Some(0), None, Some(255), Some(7), Some(7), None, Some(0), Some(255), Some(7)]),
            ), // nullable with min = 0
            ("v", ints(&[10, 20, 30, 40, 50, 60, 70, 80, 90, 100, 110, 120])),
            ("fv", floats(&[0.25, 1.5, -2.0, 3.75, 0.1, 0.2, 0.3, 10.0, -0.5, 2.5, 1e6, 1e-6])),
            // sums of four rows: 2^63 (does not fit, although every partial sum of <= 3 rows does) / 2^62 (fits)
            ("big", ints(&[1 << 61; 12])),
            ("big2", ints(&[1 << 60, -(1 << 60), 1 << 60, 1 << 60, 1 << 60, 1 << 60, 1 << 60, 1 << 60, -(1 << 60), 1 << 60, 1 << 60, 1 << 60])),
        ],
    )
}

fn c04_layouts() -> Vec<Layout> {
    let base = DbOpts {
        partition_combine_factor: 999,
        ..DbOpts::default()
    };
    let mut out = std_layouts(12);
    // additional splits with differing key sets per partition and a missing column
    for (name, batches) in [("split-1-11", vec![1usize, 11]), ("split-4-4-4", vec![4, 4, 4]), ("split-2-5-5", vec![2, 5, 5]), ("split-6-1-5", vec![6, 1, 5])] {
        out.push(Layout {
            name: name.into(),
            flush_after: vec![true; batches.len()],
            batches,
            omit_null_cols: true,
            opts: base.clone(),
            post: vec![],
        });
    }
    out
}

pub fn c04_suite(tier: Tier) -> Suite {
    let tables = vec![c04_table(), c04_range_table()];
    let layouts = vec![c04_layouts(), c04_layouts()];
    let nl = layouts[0].len();
    let mut cases = vec![];
    let keys: Vec<E> = vec![
        col("k"),
        col("nk"),
        col("s"),
        col("ns"),
        col("fk"),
        col("wk"),
        bin(BinOp::Mod, col("v"), E::Int(3)),
        col("absent"),
    ];
    let aggsets: Vec<Vec<E>> = vec![
        vec![agg(Agg::Count, E::Int(1))],
        vec![agg(Agg::Count, col("nv")), agg(Agg::Sum, col("v"))],
        vec![agg(Agg::Sum, col("nv")), agg(Agg::Min, col("v")), agg(Agg::Max, col("v"))],
        vec![agg(Agg::Min, col("nv")), agg(Agg::Max, col("nv"))],
        vec![agg(Agg::Sum, col("fv")), agg(Agg::Count, col("nfv"))],
        vec![agg(Agg::Min, col("fv")), agg(Agg::Max, col("nfv")), agg(Agg::Sum, col("nfv"))],
        vec![agg(Agg::Avg, col("v")), agg(Agg::Avg, col("fv"))],
        vec![agg(Agg::Count, col("ns")), agg(Agg::Max, col("fv")), agg(Agg::Count, E::Int(0))],
    ];
    let filters: Vec<Option<E>> = vec![
        None,
        Some(bin(BinOp::Gt, col("v"), E::Int(45))),
        Some(E::IsNull(Box::new(col("nk")))),
        Some(bin(BinOp::Gt, col("v"), E::Int(1000))),
        Some(bin(BinOp::Eq, col("s"), E::Str("a".into()))),
    ];
    let mut keylists: Vec<Vec<E>> = vec![vec![]];
    for k in &keys {
        keylists.push(vec![k.clone()]);
    }
    for (i, a) in keys.iter().enumerate() {
        for (j, b) in keys.iter().enumerate() {
            if i != j {
                keylists.push(vec![a.clone(), b.clone()]);
            }
        }
    }
    if tier == Tier::Thorough {
        for i in 0..6 {
            for j in 0..6 {
                for k in 0..6 {
                    if i != j && j != k && i != k {
                        keylists.push(vec![keys[i].clone(), keys[j].clone(), keys[k].clone()]);
                    }
                }
            }
        }
    } else {
        keylists.push(vec![col("k"), col("ns"), col("fk")]);
        keylists.push(vec![col("s"), col("nk"), col("wk")]);
    }
    // every ordered triple of the keys that have a value in every row (both tiers): the merge of
    // three-key groups across partitions
    let solid = [col("k"), col("s"), col("fk"), col("wk")];
    for a in 0..4 {
        for b in 0..4 {
            for c in 0..4 {
                if a != b && b != c && a != c {
                    let kl = vec![solid[a].clone(), solid[b].clone(), solid[c].clone()];
                    if !keylists.contains(&kl) {
                        keylists.push(kl);
                    }
                }
            }
        }
    }
    let mut n = 0usize;
    for kl in &keylists {
        for (ai, aset) in aggsets.iter().enumerate() {
            for (fi, f) in filters.iter().enumerate() {
                // quick: one-key lists get the full product, two-key lists a rotating subset
                if tier == Tier::Quick && kl.len() == 2 && (ai + fi + n) % 4 != 0 {
                    continue;
                }
                if tier == Tier::Quick && kl.len() >= 3 && !((ai == 1 || ai == 2) && fi <= 1) {
                    continue;
                }
                for li in 0..nl {
                    if tier == Tier::Quick && kl.len() >= 1 && (li + ai + fi) % 2 == 1 {
                        continue;
                    }
                    let mut select = kl.clone();
                    select.extend(aset.clone());
                    let mut q = Q::select("t", select);
                    q.filter = f.clone();
                    cases.push(QCase { table: 0, layout: li, q, mode: Mode::Multiset, nkeys: 0 });
                }
            }
            n += 1;
        }
    }
    // aggregate in the middle of the select list, ORDER BY on an aggregate, expression over aggregates
    for li in 0..nl {
        let q = Q::select("t", vec![agg(Agg::Count, E::Int(1)), col("s"), agg(Agg::Sum, col("v")), col("k")]);
        cases.push(QCase { table: 0, layout: li, q, mode: Mode::Multiset, nkeys: 0 });
        let q = Q::select("t", vec![col("s"), bin(BinOp::Sub, agg(Agg::Max, col("v")), agg(Agg::Min, col("v")))]);
        cases.push(QCase { table: 0, layout: li, q, mode: Mode::Multiset, nkeys: 0 });
        let q = Q::select("t", vec![col("k"), bin(BinOp::Div, agg(Agg::Sum, col("v")), agg(Agg::Count, col("nv")))]);
        cases.push(QCase { table: 0, layout: li, q, mode: Mode::Multiset, nkeys: 0 });
    }
    // range-boundary keys (table r): every single key, every ordered pair, triples whose packed width
    // crosses 16 / 63 bits; two aggregate sets, with and without a filter, every layout
    {
        let rk = ["a8", "b8", "o8", "c9", "d16", "e17", "m1", "g32", "h33", "w62", "full", "n8"];
        let mut kls: Vec<Vec<E>> = rk.iter().map(|k| vec![col(k)]).collect();
        for a in rk.iter() {
            for b in rk.iter() {
                if a != b {
                    kls.push(vec![col(a), col(b)]);
                }
            }
        }
        for t in [["a8", "b8", "c9"], ["a8", "b8", "n8"], ["g32", "h33", "a8"], ["g32", "a8", "d16"], ["w62", "a8", "b8"], ["o8", "m1", "a8"], ["e17", "d16", "g32"], ["n8", "m1", "full"]] {
            kls.push(t.iter().map(|k| col(k)).collect());
        }
        let rsets: Vec<Vec<E>> = vec![vec![agg(Agg::Count, E::Int(1))], vec![agg(Agg::Sum, col("v")), agg(Agg::Min, col("v")), agg(Agg::Max, col("fv"))]];
        let rfilters: Vec<Option<E>> = vec![None, Some(bin(BinOp::Gt, col("v"), E::Int(45)))];
        let mut m = 0usize;
        for kl in &kls {
            for (ai, aset) in rsets.iter().enumerate() {
                for (fi, f) in rfilters.iter().enumerate() {
                    for li in 0..nl {
                        m += 1;
                        // quick: pairs and triples on every second (aggregate set, filter, layout) combination
                        if tier == Tier::Quick && kl.len() >= 2 && (ai + fi + li + m / (2 * 2 * nl)) % 2 == 1 {
                            continue;
                        }
                        let mut select = kl.clone();
                        select.extend(aset.clone());
                        let mut q = Q::select("r", select);
                        q.filter = f.clone();
                        cases.push(QCase { table: 1, layout: li, q, mode: Mode::Multiset, nkeys: 0 });
                    }
                }
            }
        }
    }
    // sums whose partial results fit 64 bits while the merged total does not (must fail with Overflow)
    // or just does (exact value): no key and every single key of table r, every layout
    {
        let mut kls: Vec<Vec<E>> = vec![vec![]];
        for k in ["a8", "b8", "d16", "e17", "m1", "h33"] {
            kls.push(vec![col(k)]);
        }
        for kl in &kls {
            for aset in [vec![agg(Agg::Sum, col("big"))], vec![agg(Agg::Sum, col("big2")), agg(Agg::Count, E::Int(1)), agg(Agg::Min, col("big2"))]] {
                for li in 0..nl {
                    let mut select = kl.clone();
                    select.extend(aset.clone());
                    cases.push(QCase { table: 1, layout: li, q: Q::select("r", select), mode: Mode::Multiset, nkeys: 0 });
                }
            }
        }
    }
    Suite { tables, layouts, cases }
}
