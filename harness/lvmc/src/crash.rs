//! E-crash (C09): for every bounded workload over {ingest, ingest into two tables, force_flush,
//! restart} the primitive file-system effects of the real write path are observed through the
//! file-effect hook; the directory is captured before and after every primitive (plus torn
//! variants of the write in flight), and every captured state is recovered by the real
//! `LocustDB::new`, including a second generation of crash states taken during that recovery.
use std::collections::{BTreeMap, BTreeSet};
use std::path::PathBuf;
use std::sync::{Arc, Mutex};

use serde::{Deserialize, Serialize};
use serde_json::{json, Value};

use crate::common::*;
use crate::hist::{compare_rows, qident};
use crate::runner::*;

#[derive(Clone, Debug, Serialize, Deserialize, PartialEq, Eq, Hash)]
pub enum WOp {
    IngestA,
    IngestB,
    Flush,
    Restart,
}

#[derive(Clone, Debug, Serialize, Deserialize)]
pub struct CrashCase {
    pub opts: DbOpts,
    pub ops: Vec<WOp>,
    /// replay: keep evaluating crash states until a violation with this signature shows up
    /// (the order of tables inside one request / flush follows HashMap iteration and may differ between runs)
    pub expect_sig: Option<String>,
}

type Tree = BTreeMap<String, Vec<u8>>;

#[derive(Clone)]
struct Snap {
    tree: Tree,
    op_index: usize,
    label: String,
}

struct Recorder {
    dir: Option<PathBuf>,
    op_index: usize,
    op_kind: String,
    snaps: Vec<Snap>,
    /// files (relative path) whose last write has not been followed by a sync yet; the flag follows the file through renames
    unsynced: std::collections::BTreeSet<String>,
}

lazy_static::lazy_static! {
    static ref REC: Mutex<Recorder> = Mutex::new(Recorder { dir: None, op_index: 0, op_kind: String::new(), snaps: vec![], unsynced: Default::default() });
}

fn file_kind(rel: &str) -> &'static str {
    if rel.starts_with("wal/") {
        "wal"
    } else if rel.starts_with("meta") {
        "meta"
    } else if rel.contains(".part") || rel.starts_with("tables/") {
        "part"
    } else {
        "other"
    }
}

pub fn install_fs_recorder() {
    use locustdb::verif::{FsEffect, FsOp};
    locustdb::verif::set_fs_callback(Some(Arc::new(|e: &FsEffect| {
        let mut rec = REC.lock().unwrap_or_else(|p| p.into_inner());
        let dir = match &rec.dir {
            Some(d) => d.clone(),
            None => return,
        };
        if !e.target.starts_with(&dir) {
            return;
        }
        let rel = e.target.strip_prefix(&dir).unwrap().to_string_lossy().to_string();
        let label = format!(
            "{}/{}/{:?}/{}",
            rec.op_kind,
            file_kind(&rel),
            e.op,
            if e.done { "after" } else { "before" }
        );
        let tree = read_tree(&dir);
        let op_index = rec.op_index;
        // which files hold bytes that no sync has made durable yet
        if e.done {
            let path_rel = e.path.strip_prefix(&dir).map(|p| p.to_string_lossy().to_string()).unwrap_or_default();
            match e.op {
                FsOp::Write => {
                    rec.unsynced.insert(path_rel);
                }
                // the flag is cleared by the interposed fsync() below, i.e. by the system call really made, not by the position of the hook
                FsOp::Sync => {}
                FsOp::Rename => {
                    if rec.unsynced.remove(&path_rel) {
                        rec.unsynced.insert(rel.clone());
                    }
                }
                FsOp::Remove => {
                    rec.unsynced.remove(&rel);
                }
                FsOp::CreateTemp => {}
            }
        }
        // a crash may lose (part of) the content of every file that was written and not synced, wherever it has been renamed to
        let unsynced: Vec<String> = rec.unsynced.iter().filter(|f| tree.contains_key(*f)).cloned().collect();
        for f in unsynced {
            let full = tree[&f].clone();
            for cut in [0usize, full.len() / 2] {
                if cut < full.len() {
                    let mut t = tree.clone();
                    t.insert(f.clone(), full[..cut].to_vec());
                    rec.snaps.push(Snap { tree: t, op_index, label: format!("{}/unsynced-lost", label) });
                }
            }
        }
        // torn variants of the write that is about to happen
        if e.op == FsOp::Write && !e.done {
            let tmp_rel = e.path.strip_prefix(&dir).unwrap().to_string_lossy().to_string();
            let len = e.data.len();
            let mut cuts: Vec<usize> = vec![1, 47, 48, 49, len / 2, len.saturating_sub(1)];
            cuts.retain(|c| *c > 0 && *c < len);
            cuts.sort();
            cuts.dedup();
            for c in cuts {
                let mut t = tree.clone();
                t.insert(tmp_rel.clone(), e.data[..c].to_vec());
                rec.snaps.push(Snap {
                    tree: t,
                    op_index,
                    label: format!("{}/torn", label),
                });
            }
        }
        rec.snaps.push(Snap { tree, op_index, label });
    })));
}

// ---- link-time interposition of fsync(2): std::fs::File::sync_all / sync_data end up here
extern "C" {
    fn dlsym(handle: *mut std::ffi::c_void, symbol: *const std::ffi::c_char) -> *mut std::ffi::c_void;
}

static FSYNC_CALLS: std::sync::atomic::AtomicU64 = std::sync::atomic::AtomicU64::new(0);

fn note_synced(fd: i32) {
    FSYNC_CALLS.fetch_add(1, std::sync::atomic::Ordering::SeqCst);
    if let Ok(p) = std::fs::read_link(format!("/proc/self/fd/{}", fd)) {
        let mut rec = REC.lock().unwrap_or_else(|p| p.into_inner());
        if let Some(dir) = rec.dir.clone() {
            if let Ok(rel) = p.strip_prefix(&dir) {
                let rel = rel.to_string_lossy().to_string();
                rec.unsynced.remove(&rel);
            }
        }
    }
}

unsafe fn real(name: &'static [u8]) -> extern "C" fn(i32) -> i32 {
    const RTLD_NEXT: *mut std::ffi::c_void = -1isize as *mut std::ffi::c_void;
    let f = dlsym(RTLD_NEXT, name.as_ptr() as *const std::ffi::c_char);
    assert!(!f.is_null());
    std::mem::transmute::<*mut std::ffi::c_void, extern "C" fn(i32) -> i32>(f)
}

#[no_mangle]
pub unsafe extern "C" fn fsync(fd: i32) -> i32 {
    let r = real(b"fsync\0")(fd);
    if r == 0 {
        note_synced(fd);
    }
    r
}

#[no_mangle]
pub unsafe extern "C" fn fdatasync(fd: i32) -> i32 {
    let r = real(b"fdatasync\0")(fd);
    if r == 0 {
        note_synced(fd);
    }
    r
}

pub fn fsync_calls_seen() -> u64 {
    FSYNC_CALLS.load(std::sync::atomic::Ordering::SeqCst)
}

fn rec_start(dir: &PathBuf) {
    let mut rec = REC.lock().unwrap();
    rec.dir = Some(dir.clone());
    rec.snaps.clear();
    rec.unsynced.clear();
    rec.op_index = 0;
    rec.op_kind = "open".into();
}

fn rec_op(i: usize, kind: &str) {
    let mut rec = REC.lock().unwrap();
    rec.op_index = i;
    rec.op_kind = kind.to_string();
}

fn rec_stop() -> Vec<Snap> {
    let mut rec = REC.lock().unwrap();
    rec.dir = None;
    std::mem::take(&mut rec.snaps)
}

pub fn batch_a() -> Batch {
    Batch::one(
        TableBatch::new("t", 2)
            .col("id", vec![ri(1), ri(2)])
            .col("s", vec![rs("a"), rs("b")]),
    )
}

pub fn batch_b() -> Batch {
    Batch {
        tables: vec![
            TableBatch::new("t", 1).col("id", vec![ri(3)]).col("n", vec![rf(1.5)]),
            TableBatch::new("u", 2).col("id", vec![ri(10), ri(11)]).col("y", vec![rs("yy"), RVal::Null]),
        ],
    }
}

/// One row, one short column: smaller than every file a workload writes.
pub fn batch_small() -> Batch {
    Batch::one(TableBatch::new("t", 1).col("id", vec![ri(9)]))
}

fn okind<T>(r: &Outcome<T>) -> &'static str {
    match r {
        Outcome::Ok(_) => "ok",
        Outcome::Panic(_) => "caller-panic",
        Outcome::Hang => "hang",
    }
}

fn op_kind(op: &WOp) -> &'static str {
    match op {
        WOp::IngestA | WOp::IngestB => "ingest",
        WOp::Flush => "flush",
        WOp::Restart => "restart",
    }
}

type Content = BTreeMap<String, (Vec<String>, Vec<Vec<RVal>>)>;

/// Reads every user table; a table the database does not know is simply absent from the map.
fn read_content(db: &mut Db, transitions: &mut u64) -> Result<Content, (String, String)> {
    let mut c = Content::new();
    for t in ["t", "u"] {
        *transitions += 1;
        match db.query(&format!("SELECT * FROM {}", qident(t))) {
            Outcome::Ok(Ok(o)) => {
                c.insert(t.to_string(), (o.colnames.clone(), o.rows.clone()));
            }
            Outcome::Ok(Err((kind, msg))) => {
                if msg.contains("does not exist") || msg.contains("not found") {
                    continue;
                }
                return Err((format!("query-error:{}", kind), format!("SELECT * FROM {} failed: {}", t, msg)));
            }
            Outcome::Panic(m) => return Err(("query-caller-panic".into(), m)),
            Outcome::Hang => return Err(("query-hang".into(), format!("SELECT * FROM {} did not return", t))),
        }
    }
    Ok(c)
}

fn matches_ref(c: &Content, r: &RefDb) -> Option<String> {
    for (t, rt) in &r.tables {
        match c.get(t) {
            None => return Some(format!("table {} missing", t)),
            Some((cols, rows)) => {
                let want_cols: Vec<String> = rt.columns.iter().cloned().collect();
                let out = QOut {
                    colnames: cols.clone(),
                    rows: rows.clone(),
                    cols: cols
                        .iter()
                        .enumerate()
                        .map(|(i, n)| (n.clone(), rows.iter().map(|r| r[i].clone()).collect()))
                        .collect(),
                    col_kinds: vec![],
                };
                if let Some((_, what)) = compare_rows(rt, &want_cols, &out, "recovered") {
                    return Some(format!("table {}: {}", t, what));
                }
            }
        }
    }
    for t in c.keys() {
        if !r.tables.contains_key(t) && !c[t].1.is_empty() {
            return Some(format!("table {} exists although no acknowledged request created it", t));
        }
    }
    None
}

fn classify(c: &Content, allowed: &[RefDb]) -> String {
    // coarse class of the divergence, for the signature
    let total = |x: &Content| x.values().map(|(_, r)| r.len()).sum::<usize>();
    let got = total(c);
    let lo = allowed.iter().map(|r| r.tables.values().map(|t| t.rows.len()).sum::<usize>()).min().unwrap_or(0);
    let hi = allowed.iter().map(|r| r.tables.values().map(|t| t.rows.len()).sum::<usize>()).max().unwrap_or(0);
    if got < lo {
        "lost-acknowledged-rows".into()
    } else if got > hi {
        "duplicated-or-extra-rows".into()
    } else if got > lo && got < hi {
        "request-applied-partially".into()
    } else {
        "different-content".into()
    }
}

pub struct CrashOutcome {
    pub violation: Option<Violation>,
    pub transitions: u64,
    pub states: Vec<u64>,
    pub crash_states: u64,
    pub nested_states: u64,
    pub labels: BTreeSet<String>,
}

fn tree_hash(t: &Tree) -> u64 {
    let mut v = Vec::new();
    for (k, d) in t {
        v.extend_from_slice(k.as_bytes());
        v.push(0);
        v.extend_from_slice(&(d.len() as u64).to_be_bytes());
        v.extend_from_slice(d);
    }
    hash64(&v)
}

pub fn run_workload(case: &CrashCase) -> CrashOutcome {
    let mut out = CrashOutcome {
        violation: None,
        transitions: 0,
        states: vec![],
        crash_states: 0,
        nested_states: 0,
        labels: BTreeSet::new(),
    };
    let _ = take_panics();
    // ---- record the workload
    let dir = fresh_dir();
    rec_start(&dir);
    let (mut db, r) = Db::open(&case.opts, Some(dir.clone()));
    let mk = |sig: String, what: String, case: &CrashCase, _state: Option<usize>, _nested: Option<usize>| {
        let mut c = case.clone();
        c.expect_sig = Some(sig.clone());
        Violation {
            sig,
            what,
            weight: case.ops.len() as u64 * 10,
            case: serde_json::to_value(&c).unwrap(),
        }
    };
    if !matches!(r, Outcome::Ok(())) {
        rec_stop();
        out.violation = Some(mk(format!("workload:open:{}", okind(&r)), r.describe(), case, None, None));
        return out;
    }
    // reference content after k acknowledged ingests
    let mut refs: Vec<RefDb> = vec![RefDb::default()];
    let mut ref_before_op: Vec<usize> = vec![]; // index into refs of the content acknowledged before op i
    for (i, op) in case.ops.iter().enumerate() {
        rec_op(i, op_kind(op));
        ref_before_op.push(refs.len() - 1);
        out.transitions += 1;
        let r = match op {
            WOp::IngestA | WOp::IngestB => {
                let b = if *op == WOp::IngestA { batch_a() } else { batch_b() };
                let mut next = refs.last().unwrap().clone();
                next.apply(&b);
                refs.push(next);
                db.ingest_batch(&b, IngestPath::Wire)
            }
            WOp::Flush => db.flush(),
            WOp::Restart => db.restart(),
        };
        if !matches!(r, Outcome::Ok(())) {
            let panics = take_panics();
            rec_stop();
            out.violation = Some(mk(
                format!("workload:{}:{}:{}", op_kind(op), okind(&r), panics.first().map(panic_site).unwrap_or_default()),
                format!("workload step {} ({:?}) {}; panics {:?}", i, op, r.describe(), panics),
                case,
                None,
                None,
            ));
            return out;
        }
    }
    let snaps = rec_stop();
    db.destroy();
    let _ = take_panics();

    // ---- evaluate every distinct crash state
    let mut seen = BTreeSet::new();
    let mut other: Option<Violation> = None;
    for (si, snap) in snaps.iter().enumerate() {
        if !seen.insert((tree_hash(&snap.tree), snap.op_index)) {
            continue;
        }
        out.crash_states += 1;
        out.labels.insert(snap.label.clone());
        out.states.push(tree_hash(&snap.tree));
        // allowed contents: acknowledged before the op, plus the op itself if it is an ingestion
        let base = ref_before_op[snap.op_index];
        let mut allowed = vec![refs[base].clone()];
        if matches!(case.ops[snap.op_index], WOp::IngestA | WOp::IngestB) {
            allowed.push(refs[base + 1].clone());
        }
        let mut r = eval_state(&snap.tree, &allowed, &case.opts, &mut out, None, false);
        let mut label = snap.label.clone();
        if r.is_ok() {
            // the same state reached by a history that crashed once more in the past: every staging
            // file is a leftover that is longer than what will be written under its name next, and a
            // stale staging file of the catalogue is lying around (recovery never removes it)
            let mut stale = snap.tree.clone();
            let garbage = vec![0xA5u8; 8192];
            for (name, data) in stale.iter_mut() {
                if name.ends_with("..INCOMPLETE") {
                    data.extend_from_slice(&garbage);
                }
            }
            stale.entry("meta..INCOMPLETE".to_string()).or_insert_with(|| garbage.clone());
            if seen.insert((tree_hash(&stale), snap.op_index)) {
                out.crash_states += 1;
                out.states.push(tree_hash(&stale));
                r = eval_state(&stale, &allowed, &case.opts, &mut out, None, true);
                label = format!("{}:stale-staging-files", snap.label);
                out.labels.insert("stale-staging-files".to_string());
            }
        }
        if let Err((sig, what, nested)) = r {
            let v = mk(
                format!("crash:{}:{}", label, sig),
                format!(
                    "crash at effect #{} ({}) of workload {:?}: {}",
                    si, snap.label, case.ops, what
                ),
                case,
                Some(si),
                nested,
            );
            match &case.expect_sig {
                Some(e) if *e != v.sig => {
                    if other.is_none() {
                        other = Some(v);
                    }
                }
                _ => {
                    out.violation = Some(v);
                    return out;
                }
            }
        }
    }
    out.violation = other;
    out
}

/// Recover one crash state. Err((signature detail, description, nested index)).
fn eval_state(
    tree: &Tree,
    allowed: &[RefDb],
    opts: &DbOpts,
    out: &mut CrashOutcome,
    only_nested: Option<usize>,
    skip_nested: bool,
) -> Result<(), (String, String, Option<usize>)> {
    let dir = fresh_dir();
    write_tree(&dir, tree);
    let _ = take_panics();
    rec_start(&dir);
    let (mut db, r) = Db::open(opts, Some(dir.clone()));
    let nested = rec_stop();
    out.transitions += 1;
    let fail = |db: Db, sig: String, what: String, n: Option<usize>| -> Result<(), (String, String, Option<usize>)> {
        db.destroy();
        Err((sig, what, n))
    };
    if !matches!(r, Outcome::Ok(())) {
        let panics = take_panics();
        let site = panics.first().map(panic_site).unwrap_or_default();
        let kind = if matches!(r, Outcome::Hang) { "open-hang" } else { "open-panic" };
        return fail(
            db,
            format!("{}:{}", kind, site),
            format!(
                "recovery {}; panics: {:?}; files: {:?}",
                r.describe(),
                panics.iter().map(|p| format!("{} {}", panic_site(p), p.message)).collect::<Vec<_>>(),
                tree.iter().map(|(k, v)| (k.clone(), v.len())).collect::<Vec<_>>()
            ),
            None,
        );
    }
    let c1 = match read_content(&mut db, &mut out.transitions) {
        Ok(c) => c,
        Err((sig, what)) => {
            let panics = take_panics();
            return fail(db, format!("read:{}", sig), format!("{}; panics {:?}", what, panics), None);
        }
    };
    let chosen = allowed.iter().position(|r| matches_ref(&c1, r).is_none());
    let chosen = match chosen {
        Some(i) => i,
        None => {
            let why: Vec<String> = allowed.iter().map(|r| matches_ref(&c1, r).unwrap()).collect();
            let cls = classify(&c1, allowed);
            return fail(
                db,
                format!("content:{}", cls),
                format!(
                    "recovered content matches neither the acknowledged requests nor acknowledged + in-flight request: {:?}; recovered = {:?}",
                    why, c1
                ),
                None,
            );
        }
    };
    if only_nested.is_none() {
        // the recovered database must keep working. First a request that is *smaller* than anything
        // written before (whatever a crash left behind under the name of the next log segment must not
        // leak into it), acknowledged, then a clean restart: chosen content + that request.
        let mut after = allowed[chosen].clone();
        let small = batch_small();
        after.apply(&small);
        out.transitions += 2;
        let r = db.ingest_batch(&small, IngestPath::Wire);
        if !matches!(r, Outcome::Ok(())) {
            let panics = take_panics();
            return fail(
                db,
                format!("post-recovery-ingest:{}:{}", okind(&r), panics.first().map(panic_site).unwrap_or_default()),
                format!("ingestion after recovery {}; panics {:?}", r.describe(), panics),
                None,
            );
        }
        let r = db.restart();
        if !matches!(r, Outcome::Ok(())) {
            let panics = take_panics();
            return fail(
                db,
                format!("post-recovery-ingest-restart:{}:{}", okind(&r), panics.first().map(panic_site).unwrap_or_default()),
                format!("restart after recovery + one acknowledged request {}; panics {:?}", r.describe(), panics),
                None,
            );
        }
        match read_content(&mut db, &mut out.transitions) {
            Ok(c2) => {
                if let Some(why) = matches_ref(&c2, &after) {
                    return fail(
                        db,
                        "post-recovery-ingest:content".into(),
                        format!("after recovery, one more acknowledged request and a clean restart the content is not recovered content + that request: {}; got {:?}", why, c2),
                        None,
                    );
                }
            }
            Err((sig, what)) => return fail(db, format!("post-recovery-ingest-read:{}", sig), what, None),
        }
        let allowed_after = after;
        // then flush, clean restart, same content
        out.transitions += 2;
        let r = db.flush();
        if !matches!(r, Outcome::Ok(())) {
            let panics = take_panics();
            return fail(
                db,
                format!("post-recovery-flush:{}:{}", okind(&r), panics.first().map(panic_site).unwrap_or_default()),
                format!("force_flush after recovery {}; panics {:?}", r.describe(), panics),
                None,
            );
        }
        let r = db.restart();
        if !matches!(r, Outcome::Ok(())) {
            let panics = take_panics();
            return fail(
                db,
                format!("post-recovery-restart:{}:{}", okind(&r), panics.first().map(panic_site).unwrap_or_default()),
                format!("restart after recovery + flush {}; panics {:?}", r.describe(), panics),
                None,
            );
        }
        match read_content(&mut db, &mut out.transitions) {
            Ok(c2) => {
                if matches_ref(&c2, &allowed_after).is_some() {
                    return fail(
                        db,
                        "post-recovery:content-changed".into(),
                        format!("content after recovery + flush + restart differs from content right after recovery: {:?} vs {:?}", c2, c1),
                        None,
                    );
                }
            }
            Err((sig, what)) => return fail(db, format!("post-recovery-read:{}", sig), what, None),
        }
    }
    db.destroy();
    // second generation: crash again during / right after the recovery
    let mut seen = BTreeSet::new();
    for (ni, n) in nested.iter().enumerate() {
        if skip_nested {
            break;
        }
        if let Some(only) = only_nested {
            if ni != only {
                continue;
            }
        } else if !seen.insert(tree_hash(&n.tree)) {
            continue;
        }
        out.nested_states += 1;
        out.states.push(tree_hash(&n.tree));
        let d2 = fresh_dir();
        write_tree(&d2, &n.tree);
        let (mut db2, r) = Db::open(opts, Some(d2));
        out.transitions += 1;
        if !matches!(r, Outcome::Ok(())) {
            let panics = take_panics();
            return fail(
                db2,
                format!("second-crash:open:{}:{}", okind(&r), panics.first().map(panic_site).unwrap_or_default()),
                format!("recovery after a second crash during recovery ({}) {}; panics {:?}", n.label, r.describe(), panics),
                Some(ni),
            );
        }
        match read_content(&mut db2, &mut out.transitions) {
            Ok(c3) => {
                if matches_ref(&c3, &allowed[chosen]).is_some() {
                    return fail(
                        db2,
                        "second-crash:content-changed".into(),
                        format!("crashing again during recovery ({}) changed the content: {:?} vs {:?}", n.label, c3, c1),
                        Some(ni),
                    );
                }
            }
            Err((sig, what)) => return fail(db2, format!("second-crash:read:{}", sig), what, Some(ni)),
        }
        db2.destroy();
    }
    Ok(())
}

pub struct CrashEngine;

fn plan(tier: Tier) -> Vec<(DbOpts, usize)> {
    let base = DbOpts::default();
    let mut v = vec![];
    for factor in [0u64, 4] {
        v.push((
            DbOpts {
                partition_combine_factor: factor,
                ..base.clone()
            },
            if tier == Tier::Quick { 3 } else { 4 },
        ));
    }
    if tier == Tier::Thorough {
        v.push((
            DbOpts {
                partition_combine_factor: 0,
                io_threads: 4,
                max_partition_size_bytes: 1,
                ..base.clone()
            },
            4,
        ));
        v.push((
            DbOpts {
                partition_combine_factor: 1,
                ..base.clone()
            },
            5,
        ));
    }
    v
}

const ALPHABET: [WOp; 4] = [WOp::IngestA, WOp::IngestB, WOp::Flush, WOp::Restart];

fn nth(depth: usize, mut idx: u64) -> Vec<WOp> {
    let mut v = vec![0usize; depth];
    for k in (0..depth).rev() {
        v[k] = (idx % 4) as usize;
        idx /= 4;
    }
    v.into_iter().map(|i| ALPHABET[i].clone()).collect()
}

impl Engine for CrashEngine {
    fn property(&self) -> &'static str {
        "C09"
    }

    fn describe(&self, tier: Tier) -> Describe {
        let p = plan(tier);
        Describe {
            level: "model_checking",
            rule: "workloads = every sequence of exactly `depth` operations over {ingest A (table t), ingest B (tables t and u in one request), force_flush, restart} per configuration; crash states = the directory before and after EVERY primitive effect of the real FileBlobWriter (create temp, write, sync, rename, remove) observed through the file-effect hook, plus torn variants of the write in flight (1, 47, 48, 49, len/2, len-1 bytes), plus, for every file whose last write no fsync / fdatasync system call has followed yet (observed by link-time interposition of the two calls, not by hook position; the flag follows the file through renames), the variants in which its content is lost entirely or by half; each distinct state is recovered by LocustDB::new, read, flushed, restarted and read again; every distinct directory state observed during that recovery is crashed and recovered a second time. A state is non-trivial if it lies strictly inside an operation (a temp file exists or a rename / remove is pending); distinct by directory content hash.".into(),
            assumptions: vec![
                "fault model of the property: effects become durable in program order (a crash keeps a prefix of the primitive effects), except that file content written and not yet synced may be lost; reordering of directory entries by the file system (no directory fsync) is outside the model".into(),
                "workloads are sequential, so the effect order of one recorded run is the only order (io_threads=1); the order of tables inside one flush follows HashMap iteration of that run".into(),
                "a recovery that does not return within the deadline counts as non-terminating".into(),
            ],
            bounds: json!(p.iter().map(|(o, d)| json!({"depth": d, "workloads": 4u64.pow(*d as u32), "options": o})).collect::<Vec<_>>()),
            states_meaning: "distinct directory contents (crash states of first and second generation) that were recovered",
        }
    }

    fn run_shard(&self, tier: Tier, shard: usize, nshards: usize, out: &mut ShardResult) {
        install_fs_recorder();
        let mut g = 0u64;
        for (opts, depth) in plan(tier) {
            for idx in 0..4u64.pow(depth as u32) {
                g += 1;
                if (g as usize) % nshards != shard {
                    continue;
                }
                let case = CrashCase {
                    opts: opts.clone(),
                    ops: nth(depth, idx),
                    expect_sig: None,
                };
                let mut o = run_workload(&case);
                if let Some(v) = &o.violation {
                    if v.sig.contains("hang") {
                        std::env::set_var("LVMC_DEADLINE_MS", "30000");
                        let c2: CrashCase = serde_json::from_value(v.case.clone()).unwrap();
                        let again = run_workload(&c2);
                        std::env::remove_var("LVMC_DEADLINE_MS");
                        if again.violation.as_ref().map(|a| &a.sig) != Some(&v.sig) {
                            out.count("transient_stalls_discarded", 1);
                            o.violation = again.violation;
                        }
                    }
                }
                out.evaluations += o.crash_states + o.nested_states;
                out.transitions += o.transitions;
                out.count("workloads", 1);
                out.count("crash_states_first_generation", o.crash_states);
                out.count("crash_states_second_generation", o.nested_states);
                for s in &o.states {
                    out.states.insert(*s);
                    out.nontrivial.insert(*s);
                }
                for l in &o.labels {
                    out.outcome(&format!("crash-point:{}", l));
                }
                if std::env::var("LVMC_TRACE").is_ok() {
                    eprintln!("[trace] {:?} factor={} states={}+{} -> {:?}", case.ops, opts.partition_combine_factor, o.crash_states, o.nested_states, o.violation.as_ref().map(|v| (&v.sig, &v.what)));
                }
                match o.violation {
                    Some(v) => {
                        out.outcome(&format!("violation:{}", v.sig));
                        out.violation(v);
                    }
                    None => out.outcome("workload-ok"),
                }
                if out.samples.len() < 2 {
                    out.sample(json!({"workload": case.ops, "options": opts, "crash_points": o.labels}));
                }
            }
        }
        // the unsynced-content variants rest on seeing the fsync calls of the real writer
        out.count("fsync_calls_observed", fsync_calls_seen());
        assert!(g == 0 || fsync_calls_seen() > 0, "fsync interposition is not active: no fsync call was observed");
    }

    fn replay(&self, case: &Value) -> Option<Violation> {
        install_fs_recorder();
        let case: CrashCase = serde_json::from_value(case.clone()).expect("crash case");
        run_workload(&case).violation
    }
}
