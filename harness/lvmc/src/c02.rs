//! C02: query results do not depend on the physical layout.
//! Differential oracle: for every enumerated physical realisation of the same logical table the
//! answer to every query of a fixed query set must equal the answer of the simplest realisation
//! (one batch, memory only, default options); float sums compared with relative tolerance.
use std::collections::BTreeMap;

use serde::{Deserialize, Serialize};
use serde_json::{json, Value};

use crate::c03::{norm_msg, shape};
use crate::common::*;
use crate::qeng::q_shape;
use crate::qtables::*;
use crate::refq::*;
use crate::runner::*;

pub struct C02;

fn t1() -> LogicalTable {
    LogicalTable::new(
        "t",
        vec![
            ("id", ints(&[0, 1, 2, 3, 4, 5, 6, 7])),
            ("a", ints(&[5, 3, 5, 9, 3, 250, 7, 5])),
            ("w", ints(&[1 << 40, -7, 65536, 0, -(1 << 35), 3, 1 << 40, 12])),
            ("ni", opt_ints(&[Some(4), None, Some(4), Some(-1), None, Some(9), Some(-1), Some(300)])),
            ("f", floats(&[0.5, 2.25, -1.0, 0.5, 100.0, 3.5, 2.25, -0.25])),
            ("nf", opt_floats(&[None, Some(1.5), Some(2.5), None, Some(1.5), None, Some(-4.0), Some(0.0)])),
            ("s", strs(&["pear", "fig", "pear", "kiwi", "fig", "apple", "pear", "date"])),
            ("ns", opt_strs(&[Some("u"), None, Some("v"), Some("u"), None, Some("w"), Some("v"), None])),
            // only the late rows have it
            ("late", opt_ints(&[None, None, None, None, None, Some(1), Some(2), Some(3)])),
        ],
    )
}

fn t2() -> LogicalTable {
    let n = 24usize;
    let base = t1();
    let mut cols: Vec<(&str, Vec<RVal>)> = vec![];
    let names = ["id", "a", "w", "ni", "f", "nf", "s", "ns", "late"];
    for name in names {
        let vals: Vec<RVal> = (0..n)
            .map(|i| {
                let src = base.rows[i % 8].get(name).cloned().unwrap_or(RVal::Null);
                match (name, src) {
                    ("id", _) => ri(i as i64),
                    ("late", _) => {
                        if i >= 16 {
                            ri(i as i64)
                        } else {
                            RVal::Null
                        }
                    }
                    (_, RVal::Int(x)) => ri(x + (i / 8) as i64),
                    (_, RVal::Float(b)) => rf(f64::from_bits(b) + (i / 8) as f64),
                    (_, RVal::Str(s)) => rs(&format!("{}{}", s, ["", "2", "3"][i / 8])),
                    (_, RVal::Null) => RVal::Null,
                }
            })
            .collect();
        cols.push((name, vals));
    }
    let mut t = LogicalTable::new("t", cols);
    t.name = "t".into();
    t
}

pub fn queries() -> Vec<Q> {
    let gt = |c: &str, k: i64| bin(BinOp::Gt, col(c), E::Int(k));
    let mut v = vec![
        Q::select("t", vec![col("id"), col("a"), col("s")]),
        Q::select("t", vec![col("id"), col("w"), col("ni"), col("nf"), col("ns"), col("late")]),
        Q::select("t", vec![col("id")]).filter(gt("a", 4)),
        Q::select("t", vec![col("id")]).filter(bin(BinOp::Lt, col("w"), E::Int(100))),
        Q::select("t", vec![col("id")]).filter(bin(BinOp::Ge, col("f"), fl(2.25))),
        Q::select("t", vec![col("id")]).filter(bin(BinOp::Eq, col("s"), E::Str("pear".into()))),
        Q::select("t", vec![col("id")]).filter(bin(BinOp::Lt, col("s"), E::Str("g".into()))),
        Q::select("t", vec![col("id")]).filter(E::IsNull(Box::new(col("ni")))),
        Q::select("t", vec![col("id")]).filter(E::IsNotNull(Box::new(col("late")))),
        Q::select("t", vec![col("id")]).filter(bin(BinOp::And, gt("a", 3), bin(BinOp::Lt, col("f"), fl(3.0)))),
        Q::select("t", vec![col("id")]).filter(bin(BinOp::Or, gt("ni", 3), gt("a", 100))),
        Q::select("t", vec![col("id")]).filter(E::Like(Box::new(col("s")), "%e%".into())),
        Q::select("t", vec![col("id"), bin(BinOp::Add, col("a"), col("id")), bin(BinOp::Mul, col("a"), E::Int(3))]),
        Q::select("t", vec![col("id"), bin(BinOp::Div, col("w"), E::Int(7)), bin(BinOp::Mod, col("a"), E::Int(4))]),
        Q::select("t", vec![col("id"), bin(BinOp::Add, col("ni"), E::Int(1)), E::Length(Box::new(col("s")))]),
        // filtered projections / aggregates of nullable columns (streamed filter output carries a null map)
        Q::select("t", vec![col("id"), col("ni"), col("nf"), col("ns"), col("late")]).filter(gt("a", 3)),
        Q::select("t", vec![col("id"), col("ni"), col("ns")]).filter(gt("ni", 0)),
        Q::select("t", vec![agg(Agg::Min, col("ni")), agg(Agg::Max, col("ni")), agg(Agg::Min, col("nf")), agg(Agg::Max, col("nf"))]).filter(gt("a", 3)),
        // sorts (id as last key makes the order total)
        Q::select("t", vec![col("id"), col("a")]).order_by(col("a"), false).order_by(col("id"), false),
        Q::select("t", vec![col("id"), col("s")]).order_by(col("s"), true).order_by(col("id"), false),
        Q::select("t", vec![col("id"), col("f")]).order_by(col("f"), false).order_by(col("id"), true),
        Q::select("t", vec![col("id"), col("ni")]).order_by(col("ni"), false).order_by(col("id"), false),
        Q::select("t", vec![col("id"), col("ns")]).order_by(col("ns"), true).order_by(col("id"), false),
        Q::select("t", vec![col("id")]).order_by(col("id"), true).limit(3),
        Q::select("t", vec![col("id")]).order_by(col("id"), false).limit(2).offset(3),
        Q::select("t", vec![col("id"), col("w")]).order_by(col("w"), true).order_by(col("id"), false).limit(5).offset(1),
        // single-key top-n whose LIMIT (+ OFFSET) exceeds the small batch sizes: the heap fills over several streamed batches
        Q::select("t", vec![col("id"), col("a")]).order_by(col("id"), true).limit(9),
        Q::select("t", vec![col("id"), col("s")]).order_by(col("id"), false).limit(10).offset(1),
        Q::select("t", vec![col("id"), col("f")]).filter(gt("a", 3)).order_by(col("id"), true).limit(9),
        Q::select("t", vec![col("id")]).limit(3),
        Q::select("t", vec![col("id")]).limit(4).offset(5),
        Q::select("t", vec![col("id")]).filter(gt("a", 4)).order_by(col("id"), true).limit(2),
        // aggregates
        Q::select("t", vec![agg(Agg::Count, E::Int(1)), agg(Agg::Sum, col("a")), agg(Agg::Max, col("w")), agg(Agg::Min, col("f"))]),
        Q::select("t", vec![agg(Agg::Sum, col("f")), agg(Agg::Count, col("ni")), agg(Agg::Sum, col("ni"))]),
        Q::select("t", vec![col("a"), agg(Agg::Count, E::Int(1))]),
        Q::select("t", vec![col("s"), agg(Agg::Sum, col("a")), agg(Agg::Max, col("f"))]),
        Q::select("t", vec![col("s"), col("a"), agg(Agg::Count, E::Int(1))]),
        Q::select("t", vec![col("w"), agg(Agg::Min, col("id"))]),
        Q::select("t", vec![col("ni"), agg(Agg::Count, E::Int(1))]),
        Q::select("t", vec![col("ns"), agg(Agg::Sum, col("a"))]),
        Q::select("t", vec![col("s"), agg(Agg::Count, E::Int(1))]).filter(gt("a", 4)),
        Q::select("t", vec![bin(BinOp::Mod, col("id"), E::Int(3)), agg(Agg::Sum, col("w"))]),
        Q::select("t", vec![agg(Agg::Avg, col("a"))]),
        Q::select("t", vec![col("s"), bin(BinOp::Sub, agg(Agg::Max, col("a")), agg(Agg::Min, col("a")))]),
        Q::select("t", vec![col("s"), agg(Agg::Count, E::Int(1))]).order_by(agg(Agg::Count, E::Int(1)), true).order_by(col("s"), false),
        Q::select("t", vec![col("a"), agg(Agg::Sum, col("f"))]).order_by(col("a"), false).limit(2),
    ];
    // SELECT * (rendered specially)
    v.push(Q::select("t", vec![col("*")]));
    v
}

fn sql_of(q: &Q) -> String {
    q.sql().replace("\"*\"", "*")
}

#[derive(Clone, Debug, Serialize, Deserialize, PartialEq, Eq, Hash)]
pub struct PhysCase {
    pub table: usize,
    pub batches: Vec<usize>,
    pub flush_after: Vec<bool>,
    pub opts: DbOpts,
    pub post: Vec<Post>,
    pub omit_null_cols: bool,
}

impl PhysCase {
    fn layout(&self) -> Layout {
        Layout {
            name: format!("{:?}/{:?}", self.batches, self.flush_after),
            batches: self.batches.clone(),
            flush_after: self.flush_after.clone(),
            omit_null_cols: self.omit_null_cols,
            opts: self.opts.clone(),
            post: self.post.clone(),
        }
    }
}

fn compositions(n: usize, max_parts: usize) -> Vec<Vec<usize>> {
    fn rec(n: usize, parts: usize, cur: &mut Vec<usize>, out: &mut Vec<Vec<usize>>) {
        if n == 0 {
            out.push(cur.clone());
            return;
        }
        if parts == 0 {
            return;
        }
        for k in 1..=n {
            cur.push(k);
            rec(n - k, parts - 1, cur, out);
            cur.pop();
        }
    }
    let mut out = vec![];
    rec(n, max_parts, &mut vec![], &mut out);
    out
}

fn configs() -> Vec<(DbOpts, Vec<Post>)> {
    let base = DbOpts::default();
    let mut v = vec![];
    for factor in [0u64, 1, 4, 999] {
        for lz4 in [true, false] {
            for mps in [8 * 1024 * 1024u64, 1] {
                for (bs, th) in [(1024usize, 1usize), (8, 2), (16, 8), (64, 2)] {
                    for post in [vec![], vec![Post::Restart], vec![Post::Evict]] {
                        v.push((
                            DbOpts {
                                partition_combine_factor: factor,
                                mem_lz4: lz4,
                                max_partition_size_bytes: mps,
                                batch_size: bs,
                                threads: th,
                                ..base.clone()
                            },
                            post,
                        ));
                    }
                }
            }
        }
    }
    // memory only
    for (bs, th) in [(1024usize, 1usize), (8, 2)] {
        v.push((
            DbOpts {
                on_disk: false,
                batch_size: bs,
                threads: th,
                ..base.clone()
            },
            vec![],
        ));
    }
    v
}

pub fn phys_cases(tier: Tier) -> Vec<PhysCase> {
    let cfgs = configs();
    let mut out = vec![];
    let mut k = 0usize;
    // T1: all splits into <= 4 batches x every flush subset; configuration rotates (quick) / 6 configurations each (thorough)
    for comp in compositions(8, 4) {
        for mask in 0..(1u32 << comp.len()) {
            let flush_after: Vec<bool> = (0..comp.len()).map(|i| mask & (1 << i) != 0).collect();
            let reps = if tier == Tier::Quick { 1 } else { 6 };
            for r in 0..reps {
                let (opts, post) = cfgs[(k * 7 + r * 31) % cfgs.len()].clone();
                k += 1;
                if !opts.on_disk && flush_after.iter().any(|f| *f) {
                    // memory-only databases do not flush: same layout as no flush
                }
                out.push(PhysCase {
                    table: 0,
                    batches: comp.clone(),
                    flush_after: flush_after.clone(),
                    opts,
                    post,
                    omit_null_cols: k % 2 == 0,
                });
            }
        }
    }
    // T2 (24 rows): splits into <= 3 batches at multiples of 4 rows, all flush subsets, every configuration once over the set
    let mut comps24 = vec![];
    for a in (4..=24).step_by(4) {
        if a == 24 {
            comps24.push(vec![24]);
            continue;
        }
        for b in (4..=(24 - a)).step_by(4) {
            if a + b == 24 {
                comps24.push(vec![a, b]);
            } else {
                comps24.push(vec![a, b, 24 - a - b]);
            }
        }
    }
    comps24.push(vec![1, 22, 1]);
    comps24.push(vec![23, 1]);
    comps24.push(vec![7, 9, 8]);
    let mut j = 0usize;
    for comp in comps24 {
        for mask in 0..(1u32 << comp.len()) {
            let flush_after: Vec<bool> = (0..comp.len()).map(|i| mask & (1 << i) != 0).collect();
            let reps = if tier == Tier::Quick { 2 } else { 8 };
            for r in 0..reps {
                let (opts, post) = cfgs[(j * 11 + r * 53 + 3) % cfgs.len()].clone();
                j += 1;
                out.push(PhysCase {
                    table: 1,
                    batches: comp.clone(),
                    flush_after: flush_after.clone(),
                    opts,
                    post,
                    omit_null_cols: j % 2 == 1,
                });
            }
        }
    }
    // T2 batch-size product: every batch size x the layouts that give one large partition, two partitions, or only the open buffer
    for bs in [8usize, 16, 64, 1024] {
        for (comp, flush, factor) in [
            (vec![24usize], vec![true], 999u64),
            (vec![24], vec![false], 999),
            (vec![12, 12], vec![true, true], 0),
            (vec![12, 12], vec![true, true], 999),
            (vec![20, 4], vec![true, false], 999),
            (vec![4, 20], vec![true, false], 999),
        ] {
            for post in [vec![], vec![Post::Restart]] {
                out.push(PhysCase {
                    table: 1,
                    batches: comp.clone(),
                    flush_after: flush.clone(),
                    opts: DbOpts { partition_combine_factor: factor, batch_size: bs, threads: 1, ..DbOpts::default() },
                    post,
                    omit_null_cols: false,
                });
            }
        }
    }
    out
}

/// Canonical answer of one query.
#[derive(Clone, Debug, PartialEq)]
enum Ans {
    Rows(Vec<Vec<RVal>>),
    Err(String),
    NoAnswer(String),
}

fn answer(db: &mut Db, q: &Q) -> Ans {
    let r = db.query(&sql_of(q));
    let panics = take_panics();
    match r {
        Outcome::Ok(Ok(o)) => {
            let mut rows = o.rows.clone();
            if q.has_aggregate() && q.order.is_empty() {
                rows.sort();
            }
            Ans::Rows(rows)
        }
        Outcome::Ok(Err((kind, msg))) => Ans::Err(format!("{}:{}", kind, norm_msg(&msg))),
        Outcome::Panic(m) => Ans::NoAnswer(format!("caller-panic:{}", norm_msg(&m))),
        Outcome::Hang => Ans::NoAnswer(format!("hang:{}", panics.first().map(crate::c01::panic_file).unwrap_or_default())),
    }
}

fn same(a: &Ans, b: &Ans) -> bool {
    match (a, b) {
        (Ans::Rows(x), Ans::Rows(y)) => {
            x.len() == y.len()
                && x.iter().zip(y).all(|(r, s)| {
                    r.len() == s.len()
                        && r.iter().zip(s).all(|(u, v)| match (u, v) {
                            (RVal::Float(p), RVal::Float(q)) => {
                                let (p, q) = (f64::from_bits(*p), f64::from_bits(*q));
                                p.to_bits() == q.to_bits() || (p - q).abs() <= 1e-9 * p.abs().max(q.abs()).max(1e-300)
                            }
                            // a sum may come back as int in one layout and float in another only if equal in value
                            (RVal::Int(p), RVal::Float(q)) | (RVal::Float(q), RVal::Int(p)) => (*p as f64) == f64::from_bits(*q),
                            _ => u == v,
                        })
                })
        }
        (Ans::Err(x), Ans::Err(y)) => x.split(':').next() == y.split(':').next(),
        _ => false,
    }
}

fn diff_kind(base: &Ans, got: &Ans) -> String {
    match (base, got) {
        (Ans::Rows(x), Ans::Rows(y)) => {
            if x.len() != y.len() {
                format!("rowcount:{}", if y.len() < x.len() { "fewer" } else { "more" })
            } else {
                let mut xs = x.clone();
                let mut ys = y.clone();
                xs.sort();
                ys.sort();
                if xs == ys {
                    "order".into()
                } else {
                    "values".into()
                }
            }
        }
        (Ans::Rows(_), Ans::Err(e)) => format!("error-instead-of-rows:{}", e),
        (Ans::Err(_), Ans::Rows(_)) => "rows-instead-of-error".into(),
        (Ans::Err(a), Ans::Err(b)) => format!("error-kind:{}->{}", a.split(':').next().unwrap_or(""), b.split(':').next().unwrap_or("")),
        (_, Ans::NoAnswer(s)) => format!("no-answer:{}", s),
        (Ans::NoAnswer(s), _) => format!("baseline-no-answer:{}", s),
    }
}

fn baseline(table: &LogicalTable) -> Result<Vec<Ans>, String> {
    let l = Layout::single("baseline", table.rows.len(), false);
    let mut db = build(table, &l)?;
    let ans = queries().iter().map(|q| answer(&mut db, q)).collect();
    db.destroy();
    Ok(ans)
}

#[derive(Clone, Debug, Serialize, Deserialize)]
pub struct C02Case {
    pub phys: PhysCase,
    pub query: usize,
}

fn check_phys(tables: &[LogicalTable], base: &[Vec<Ans>], p: &PhysCase, only_query: Option<usize>, tr: &mut u64) -> Vec<(usize, String, String)> {
    let t = &tables[p.table];
    let mut bad = vec![];
    let mut db = match build(t, &p.layout()) {
        Ok(db) => db,
        Err(e) => {
            let panics = take_panics();
            bad.push((usize::MAX, format!("build:{}", panics.first().map(crate::c01::panic_file).unwrap_or_default()), format!("building the layout failed: {}; panics {:?}", e, panics)));
            return bad;
        }
    };
    for (qi, q) in queries().iter().enumerate() {
        if let Some(o) = only_query {
            if o != qi {
                continue;
            }
        }
        *tr += 1;
        let a = answer(&mut db, q);
        if !same(&base[p.table][qi], &a) {
            bad.push((
                qi,
                format!("{}:{}", diff_kind(&base[p.table][qi], &a), q_shape(q, t.rows.len())),
                format!(
                    "{} on layout batches={:?} flush_after={:?} post={:?} options={:?}: {:?}; the single-batch in-memory database answers {:?}",
                    sql_of(q),
                    p.batches,
                    p.flush_after,
                    p.post,
                    p.opts,
                    a,
                    base[p.table][qi]
                ),
            ));
            if matches!(a, Ans::NoAnswer(_)) || db.dead {
                break;
            }
        }
    }
    db.destroy();
    bad
}

impl Engine for C02 {
    fn property(&self) -> &'static str {
        "C02"
    }

    fn describe(&self, tier: Tier) -> Describe {
        let qs = queries();
        Describe {
            level: "model_checking",
            rule: "physical realisations: T1 (8 rows, 9 columns incl. nullable ones and a column present only in late rows) in every split into <= 4 ingestion batches x every subset of batches followed by force_flush; T2 (24 rows) in splits into <= 3 batches at multiples of 4 rows (+3 uneven splits) x every flush subset; each realisation under a configuration drawn in rotation from the product partition_combine_factor {0,1,4,999} x mem_lz4 x max_partition_size_bytes {1,default} x (batch_size, threads) {(1024,1),(8,2),(16,8),(64,2)} x {as is, restarted cold, evicted} plus memory-only (thorough: 6-8 configurations per realisation); plus, for T2, the full product batch_size {8,16,64,1024} x {one 24-row partition, open buffer only, two partitions compacted into one, two partitions, partition + buffer (20+4, 4+20)} x {as is, restarted cold}. Every realisation answers the fixed set of 44 queries (one per plan shape: projection, filters per type, expressions, full sort / top-n with total order, single-key top-n with LIMIT above the batch size, LIMIT / OFFSET, grouped and ungrouped aggregates, final-pass expressions, SELECT *); each answer must equal the answer of the single-batch in-memory realisation (rows in order; grouped rows as a multiset; float sums with tolerance 1e-9; same error kind). Non-trivial: realisation with at least two partitions or a partition plus buffer; distinct by (realisation, configuration).".into(),
            assumptions: vec!["the oracle is differential: a wrong answer shared by all realisations is the business of C03-C06".into(), "configurations are a rotating cover of the option product, not the full product per realisation".into()],
            bounds: json!({"realisations": phys_cases(tier).len(), "queries": qs.len(), "configurations_in_rotation": configs().len()}),
            states_meaning: "distinct (realisation, configuration) databases built and queried",
        }
    }

    fn run_shard(&self, tier: Tier, shard: usize, nshards: usize, out: &mut ShardResult) {
        let tables = vec![t1(), t2()];
        let mut base = vec![];
        for t in &tables {
            match baseline(t) {
                Ok(b) => base.push(b),
                Err(e) => {
                    out.violation(Violation { sig: "C02:baseline-build".into(), what: e, weight: 1, case: json!(null) });
                    return;
                }
            }
        }
        let qs = queries();
        for (i, p) in phys_cases(tier).iter().enumerate() {
            if i % nshards != shard {
                continue;
            }
            out.evaluations += 1;
            let h = hash64(format!("{:?}", p).as_bytes());
            out.states.insert(h);
            if p.batches.len() > 1 {
                out.nontrivial.insert(h);
            }
            let mut tr = 0;
            let bad = check_phys(&tables, &base, p, None, &mut tr);
            out.transitions += tr + p.batches.len() as u64;
            if bad.is_empty() {
                out.outcome(&format!("same-as-baseline:{}-batches", p.batches.len()));
            }
            for (qi, kind, what) in bad {
                out.outcome(&format!("differs:{}", kind.split(':').next().unwrap_or("")));
                if std::env::var("LVMC_TRACE").is_ok() {
                    eprintln!("[trace] {} :: {}", kind, what);
                }
                out.violation(Violation {
                    sig: format!("C02:{}", kind),
                    what,
                    weight: (p.batches.len() * 10 + p.flush_after.iter().filter(|f| **f).count() + p.post.len() + if qi == usize::MAX { 0 } else { qs[qi].sql().len() / 10 }) as u64,
                    case: serde_json::to_value(C02Case { phys: p.clone(), query: qi }).unwrap(),
                });
            }
            if out.samples.len() < 2 && p.batches.len() == 3 {
                out.sample(json!({"realisation": p, "queries": qs.iter().take(3).map(sql_of).collect::<Vec<_>>()}));
            }
        }
        let _ = shape;
        let _: BTreeMap<u8, u8> = BTreeMap::new();
    }

    fn replay(&self, case: &Value) -> Option<Violation> {
        let c: C02Case = serde_json::from_value(case.clone()).ok()?;
        let tables = vec![t1(), t2()];
        let base: Vec<Vec<Ans>> = tables.iter().map(|t| baseline(t).unwrap_or_default()).collect();
        let mut tr = 0;
        let only = if c.query == usize::MAX { None } else { Some(c.query) };
        let bad = check_phys(&tables, &base, &c.phys, only, &mut tr);
        bad.into_iter().next().map(|(_, kind, what)| Violation {
            sig: format!("C02:{}", kind),
            what,
            weight: 1,
            case: case.clone(),
        })
    }
}
