fn main() {
    println!("lvmc");
}
