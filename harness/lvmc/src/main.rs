mod c01;
mod c02;
mod c03;
mod c11;
mod c12;
mod c15;
mod c17;
mod codec;
mod common;
mod crash;
mod gate;
mod hist;
mod qeng;
mod qtables;
mod refq;
mod runner;

use runner::{Engine, Tier};
use std::path::PathBuf;

fn engine_for(prop: &str) -> Box<dyn Engine> {
    match prop {
        "C07" => Box::new(hist::HistEngine { flavor: hist::Flavor::C07 }),
        "C08" => Box::new(hist::HistEngine { flavor: hist::Flavor::C08 }),
        "C13" => Box::new(hist::HistEngine { flavor: hist::Flavor::C13 }),
        "C18" => Box::new(hist::HistEngine { flavor: hist::Flavor::C18 }),
        "C09" => Box::new(crash::CrashEngine),
        "C01" => Box::new(c01::C01),
        "C02" => Box::new(c02::C02),
        "C03" => Box::new(c03::C03),
        "C10" => Box::new(gate::C10),
        "C11" => Box::new(c11::C11),
        "C12" => Box::new(c12::C12),
        "C14" => Box::new(codec::C14),
        "C15" => Box::new(c15::C15),
        "C16" => Box::new(codec::C16),
        "C17" => Box::new(c17::C17),
        "C04" => Box::new(qeng::QueryEngine {
            prop: "C04",
            suite: qeng::c04_suite,
            rule: "every query SELECT <0..2 (thorough: 3) grouping expressions>, <aggregate set> FROM t [WHERE f] for grouping expressions over {small int, nullable int, string, nullable string, float, wide-range int (hash grouping), v % 3, absent column} x 8 aggregate sets of COUNT/SUM/MIN/MAX/AVG over int, nullable int, float, nullable float x 5 filters (none, selective, on NULL, none match, string equality) x 8 physical layouts (1-3 partitions with differing encodings, missing columns, open buffer, cold restart); plus table r whose 12 key columns have value ranges at the planner's boundaries (8 / 9 / 16 / 17 / 32 / 33 / 63 bits, offset subtraction, negative minimum, nullable with maximum 255, range wider than i64): every single key, every ordered pair, 8 triples whose packed width crosses 16 / 63 bits x 2 aggregate sets x 2 filters x 8 layouts; result rows compared as a multiset with the reference group-by (NULL is its own group, aggregates ignore NULL inputs, float sums with relative tolerance 1e-9). Non-trivial: the reference has at least two groups; distinct by query text.",
            assumptions: &["integer AVG compared as truncated SUM/COUNT (what the engine defines AVG to be)", "queries the engine declines with TypeError / NotImplemented are counted, not judged", "12-row tables: the *number* of groups stays small; the planner's 65 536 threshold is a bound on the packed key value and is crossed by the value ranges of table r"],
        }),
        "C05" => Box::new(qeng::QueryEngine {
            prop: "C05",
            suite: qeng::c05_suite,
            rule: "every query SELECT id, keys.. FROM t ORDER BY keys [LIMIT l] [OFFSET o] for all single keys over {int, nullable int, float, nullable float, string, nullable string, i+ni, absent column, u32-range int (compressed section), full-width i64, nullable full-width i64} x ASC/DESC x every (l, o) in [0, n+2]^2, a covering set of two-key lists (every ordered pair of base columns) and two three-key lists with representative windows, plus queries without ORDER BY (ingestion order) with and without a filter, on 4 physical layouts; plus a 40-row table in one partition streamed in batches of 8 / 16 rows with every single key x direction x 10 windows whose LIMIT + OFFSET lies around the batch sizes (the top-n heap fills over several streamed batches); oracle: the sequence of returned key tuples equals the reference sorted[o..o+l] (NULL last ascending, first descending; ties in any order), every returned row is a distinct row of the filtered table, length = min(l, max(0, N-o)). Non-trivial: window neither empty nor the whole table; distinct by query text.",
            assumptions: &["n = 10 rows (thorough adds n = 24), n = 40 for the streamed top-n cases", "queries the engine declines with TypeError / NotImplemented are counted, not judged"],
        }),
        "C06" => Box::new(qeng::QueryEngine {
            prop: "C06",
            suite: qeng::c06_suite,
            rule: "every expression tree of depth 1 over {+,-,*,/,%} with leaves = 9 integer columns at the edges of u8/u8+offset/u16/u32/i64 (two nullable; one holding i64::MIN itself) and 10 constants, depth 2 over a reduced leaf set, depth 3 (balanced; thorough also left-deep) over 3 columns x 6 leaves x 3 columns x 4 leaves, unary minus; each as a projection, and depth-1 expressions also as aggregate argument and filter operand; SUM / AVG / expressions over SUM for 6 value multisets (overflow inside a partition, only when merging, only in a prefix, cancellation, negative) x all splits of 6 rows into <= 3 partitions x grouped / ungrouped; oracle: i128 reference arithmetic - if every row fits the cells must be equal, if any non-NULL row overflows or divides by zero the call must return Err(Overflow), NULL operand gives NULL. Non-trivial: query returns rows or the overflow error; distinct by query text.",
            assumptions: &["a SUM whose total fits but which overflows for some summation order may also report Overflow", "queries the engine declines with TypeError / NotImplemented are counted, not judged"],
        }),
        _ => {
            eprintln!("unknown property {}", prop);
            std::process::exit(2)
        }
    }
}

fn main() {
    let args: Vec<String> = std::env::args().collect();
    if args.len() < 3 {
        eprintln!("usage: lvmc check <prop> <tier> | shard <prop> <tier> <i> <n> <out> | replay <prop> <file>");
        std::process::exit(2);
    }
    let code = match args[1].as_str() {
        "check" => {
            let e = engine_for(&args[2]);
            runner::run_check(e.as_ref(), Tier::parse(&args[3]))
        }
        "shard" => {
            let e = engine_for(&args[2]);
            runner::run_shard_main(
                e.as_ref(),
                Tier::parse(&args[3]),
                args[4].parse().unwrap(),
                args[5].parse().unwrap(),
                &PathBuf::from(&args[6]),
            );
            0
        }
        "replay" => {
            let e = engine_for(&args[2]);
            runner::run_replay_main(e.as_ref(), &PathBuf::from(&args[3]))
        }
        "sql" => {
            // lvmc sql <C04|C05|C06> <table idx> <layout idx> "<sql>" ...
            common::install_panic_hook();
            let suite = match args[2].as_str() {
                "C04" => qeng::c04_suite(Tier::Thorough),
                "C05" => qeng::c05_suite(Tier::Thorough),
                _ => qeng::c06_suite(Tier::Thorough),
            };
            let ti: usize = args[3].parse().unwrap();
            let li: usize = args[4].parse().unwrap();
            println!("layout {}", suite.layouts[ti][li].name);
            let mut db = qtables::build(&suite.tables[ti], &suite.layouts[ti][li]).expect("build");
            for q in &args[5..] {
                println!("{} =>", q);
                match db.query(q) {
                    common::Outcome::Ok(Ok(o)) => {
                        println!("  cols {:?} kinds {:?}", o.colnames, o.col_kinds);
                        for r in &o.rows {
                            println!("  {:?}", r);
                        }
                    }
                    other => println!("  {:?}", other),
                }
                for p in common::take_panics() {
                    println!("  panic {} {}", p.location, p.message);
                }
            }
            0
        }
        "adhoc" => {
            // lvmc adhoc <C07|C08|C13|C18> "<desc>"  -> runs the history checking every step
            common::install_panic_hook();
            common::install_flush_counter();
            if args[2] == "C11" {
                // lvmc adhoc C11 "<config idx>;<sql>;<sql>..." -> runs the request sequence with canaries
                std::process::exit(c11::adhoc(&args[3]));
            }
            let flavor = match args[2].as_str() {
                "C07" => hist::Flavor::C07,
                "C08" => hist::Flavor::C08,
                "C13" => hist::Flavor::C13,
                _ => hist::Flavor::C18,
            };
            let case = hist::adhoc_case(flavor, Tier::Quick, &args[3]);
            println!("{}", serde_json::to_string(&case.opts).unwrap());
            let o = hist::run_history(&case, 1);
            match o.violation {
                Some(v) => {
                    println!("VIOLATION sig={}\n{}", v.sig, v.what);
                    1
                }
                None => {
                    println!("ok");
                    0
                }
            }
        }
        _ => 2,
    };
    // database threads may still be parked; do not wait for them
    std::process::exit(code);
}
