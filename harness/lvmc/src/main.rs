mod common;
mod hist;
mod runner;

use runner::{Engine, Tier};
use std::path::PathBuf;

fn engine_for(prop: &str) -> Box<dyn Engine> {
    match prop {
        "C07" => Box::new(hist::HistEngine { flavor: hist::Flavor::C07 }),
        "C08" => Box::new(hist::HistEngine { flavor: hist::Flavor::C08 }),
        "C13" => Box::new(hist::HistEngine { flavor: hist::Flavor::C13 }),
        "C18" => Box::new(hist::HistEngine { flavor: hist::Flavor::C18 }),
        _ => {
            eprintln!("unknown property {}", prop);
            std::process::exit(2)
        }
    }
}

fn main() {
    let args: Vec<String> = std::env::args().collect();
    if args.len() < 3 {
        eprintln!("usage: lvmc check <prop> <tier> | shard <prop> <tier> <i> <n> <out> | replay <prop> <file>");
        std::process::exit(2);
    }
    let code = match args[1].as_str() {
        "check" => {
            let e = engine_for(&args[2]);
            runner::run_check(e.as_ref(), Tier::parse(&args[3]))
        }
        "shard" => {
            let e = engine_for(&args[2]);
            runner::run_shard_main(
                e.as_ref(),
                Tier::parse(&args[3]),
                args[4].parse().unwrap(),
                args[5].parse().unwrap(),
                &PathBuf::from(&args[6]),
            );
            0
        }
        "replay" => {
            let e = engine_for(&args[2]);
            runner::run_replay_main(e.as_ref(), &PathBuf::from(&args[3]))
        }
        "adhoc" => {
            // lvmc adhoc <C07|C08|C13|C18> "<desc>"  -> runs the history checking every step
            common::install_panic_hook();
            common::install_flush_counter();
            let flavor = match args[2].as_str() {
                "C07" => hist::Flavor::C07,
                "C08" => hist::Flavor::C08,
                "C13" => hist::Flavor::C13,
                _ => hist::Flavor::C18,
            };
            let case = hist::adhoc_case(flavor, Tier::Quick, &args[3]);
            println!("{}", serde_json::to_string(&case.opts).unwrap());
            let o = hist::run_history(&case, 1);
            match o.violation {
                Some(v) => {
                    println!("VIOLATION sig={}\n{}", v.sig, v.what);
                    1
                }
                None => {
                    println!("ok");
                    0
                }
            }
        }
        _ => 2,
    };
    // database threads may still be parked; do not wait for them
    std::process::exit(code);
}
