//! C03: WHERE keeps exactly the rows for which the predicate is true.
//! Full product of predicates (atoms over every column class x operator x constant class, NOT,
//! AND / OR trees over a covering atom set) x physical layouts, against the reference evaluator.
use std::collections::BTreeSet;

use serde::{Deserialize, Serialize};
use serde_json::{json, Value};

use crate::common::*;
use crate::qtables::*;
use crate::refq::*;
use crate::runner::*;

pub struct C03;

pub fn table() -> LogicalTable {
    LogicalTable::new(
        "t",
        vec![
            ("id", ints(&[0, 1, 2, 3, 4, 5, 6, 7, 8, 9, 10, 11])),
            // fits u8 with an offset
            ("a", ints(&[100, 105, 111, 100, 103, 108, 111, 101, 105, 110, 102, 107])),
            // full width
            (
                "w",
                ints(&[-5, 0, 7, 1 << 40, -(1 << 40), 65536, 255, 256, -1, 3, i64::MAX - 1, i64::MIN + 1]),
            ),
            (
                "ni",
                opt_ints(&[
                    Some(1),
                    None,
                    Some(-3),
                    Some(300),
                    None,
                    Some(0),
                    Some(70000),
                    None,
                    Some(1),
                    Some(2),
                    None,
                    Some(-3),
                ]),
            ),
            ("f", floats(&[0.5, -0.0, 1.5, 2.0, -2.5, 1e10, 3.0, 0.1, 100.0, -1e-3, 7.25, 2.0])),
            (
                "nf",
                opt_floats(&[
                    None,
                    Some(1.5),
                    Some(f64::NEG_INFINITY),
                    None,
                    Some(0.0),
                    Some(2.5),
                    None,
                    Some(f64::INFINITY),
                    Some(1.5),
                    None,
                    Some(-7.0),
                    Some(1e-9),
                ]),
            ),
            (
                "d",
                strs(&[
                    "apple", "banana", "apple", "cherry", "banana", "apple", "date", "cherry", "apple", "banana", "date",
                    "apple",
                ]),
            ),
            (
                "p",
                strs(&[
                    "ab", "abc", "a_c", "a%c", "", "zeta", "héllo", "Ab", "abcd", "b", "aXc", "ba",
                ]),
            ),
            (
                "ns",
                opt_strs(&[
                    Some("x"),
                    None,
                    Some(""),
                    Some("y"),
                    None,
                    None,
                    None,
                    None,
                    Some("x"),
                    Some("abc"),
                    None,
                    Some("z"),
                ]),
            ),
        ],
    )
}

pub fn layouts() -> Vec<Layout> {
    let base = DbOpts::default();
    vec![
        // one partition, executed in two streamed batches (8 + 4 rows): operators that keep state between
        // batches (output buffers, null maps, cursors) are reset or carried over
        Layout {
            name: "one-partition".into(),
            batches: vec![12],
            flush_after: vec![true],
            omit_null_cols: false,
            opts: DbOpts {
                batch_size: 8,
                ..base.clone()
            },
            post: vec![],
        },
        // three partitions with different value ranges / dictionaries; the middle one lacks `ns`; read back cold
        Layout {
            name: "three-partitions-cold".into(),
            batches: vec![4, 4, 4],
            flush_after: vec![true, true, true],
            omit_null_cols: true,
            opts: DbOpts {
                partition_combine_factor: 999,
                ..base.clone()
            },
            post: vec![Post::Restart],
        },
        // partition + open buffer, no generic compression
        Layout {
            name: "partition-plus-buffer".into(),
            batches: vec![6, 6],
            flush_after: vec![true, false],
            omit_null_cols: false,
            opts: DbOpts {
                mem_lz4: false,
                ..base.clone()
            },
            post: vec![],
        },
    ]
}

const CMP: [BinOp; 6] = [BinOp::Eq, BinOp::Ne, BinOp::Lt, BinOp::Le, BinOp::Gt, BinOp::Ge];

fn int_consts(col_vals: &[i64]) -> Vec<i64> {
    let min = *col_vals.iter().min().unwrap();
    let max = *col_vals.iter().max().unwrap();
    let mut v = vec![
        min.saturating_sub(1),
        min,
        min.saturating_add(1),
        min / 2 + max / 2,
        max.saturating_sub(1),
        max,
        0,
        -1,
        256,
        65536,
        i64::MIN + 1,
        i64::MAX - 1,
    ];
    if max < i64::MAX - 1 {
        v.push(max + 1);
    }
    v.retain(|k| *k != i64::MIN && *k != i64::MAX);
    v.sort();
    v.dedup();
    v
}

pub fn atoms(tier: Tier) -> Vec<E> {
    let t = table();
    let mut out: Vec<E> = vec![];
    let col_ints = |c: &str| -> Vec<i64> {
        t.rows
            .iter()
            .filter_map(|r| match r.get(c) {
                Some(RVal::Int(i)) => Some(*i),
                _ => None,
            })
            .collect()
    };
    // integer columns against integer and fractional constants
    for c in ["a", "w", "ni"] {
        let ks = int_consts(&col_ints(c));
        for op in CMP {
            for k in &ks {
                out.push(bin(op, col(c), E::Int(*k)));
            }
            for k in [100.5, -0.5, 2.5e9] {
                out.push(bin(op, col(c), fl(k)));
            }
            // integer-valued float constants equal to stored values (and to the column's extremes)
            let vals = col_ints(c);
            let small: Vec<i64> = vals.iter().cloned().filter(|v| v.abs() < (1 << 50)).collect();
            let mut eqs = vec![*small.iter().min().unwrap(), small[small.len() / 2], *small.iter().max().unwrap()];
            eqs.dedup();
            for k in eqs {
                out.push(bin(op, col(c), fl(k as f64)));
                out.push(bin(op, fl(k as f64), col(c)));
            }
        }
        // constant on the left
        for op in CMP {
            let ks = int_consts(&col_ints(c));
            for k in [ks[0], ks[ks.len() / 2], ks[ks.len() - 1]] {
                out.push(bin(op, E::Int(k), col(c)));
            }
        }
    }
    // float columns
    for c in ["f", "nf"] {
        for op in CMP {
            for k in [-3.0, -2.5, -0.0, 0.0, 0.1, 1.5, 2.0, 2.25, 1e10, 1e11, 1e-9] {
                out.push(bin(op, col(c), fl(k)));
            }
            for k in [0i64, 2, 3, -7, 100] {
                out.push(bin(op, col(c), E::Int(k)));
            }
            out.push(bin(op, fl(1.5), col(c)));
        }
    }
    // string columns: present, between two entries, below all, above all, empty
    for c in ["d", "p", "ns"] {
        for op in CMP {
            for k in ["apple", "banana", "date", "avocado", "", "zzzz", "A", "abc", "x", "ab", "a%c", "héllo"] {
                out.push(bin(op, col(c), E::Str(k.to_string())));
            }
            out.push(bin(op, E::Str("b".into()), col(c)));
        }
    }
    // absent column
    for op in CMP {
        out.push(bin(op, col("absent"), E::Int(1)));
        out.push(bin(op, col("absent"), E::Str("x".into())));
    }
    // column against column
    for (x, y) in [("a", "w"), ("a", "ni"), ("ni", "w"), ("f", "nf"), ("a", "f"), ("ni", "nf"), ("d", "p"), ("d", "ns"), ("p", "ns"), ("a", "id"), ("a", "absent"), ("a", "a"), ("w", "w"), ("ni", "ni"), ("f", "f"), ("nf", "nf"), ("d", "d"), ("ns", "ns")] {
        for op in CMP {
            out.push(bin(op, col(x), col(y)));
        }
    }
    // presence
    for c in ["id", "a", "w", "ni", "f", "nf", "d", "p", "ns", "absent"] {
        out.push(E::IsNull(Box::new(col(c))));
        out.push(E::IsNotNull(Box::new(col(c))));
    }
    // LIKE patterns up to length 3 over a small alphabet
    let alpha = ["%", "_", "a", "b", "c"];
    let mut pats: Vec<String> = vec!["".into()];
    for x in alpha {
        pats.push(x.to_string());
        for y in alpha {
            pats.push(format!("{}{}", x, y));
            if tier == Tier::Thorough || x == "%" || y == "%" || x == "_" {
                for z in alpha {
                    pats.push(format!("{}{}{}", x, y, z));
                }
            }
        }
    }
    pats.extend(["apple", "a%e", "%an%", "ap_le", "%%", "x", "%é%", "a\\_c", "A%"].iter().map(|s| s.to_string()));
    pats.sort();
    pats.dedup();
    for c in ["d", "p", "ns"] {
        for p in &pats {
            out.push(E::Like(Box::new(col(c)), p.clone()));
            out.push(E::NotLike(Box::new(col(c)), p.clone()));
        }
    }
    for c in ["d", "p", "ns"] {
        for p in ["^a", "an", "e$", "^$", "a.c", "^[ab]+$", "é"] {
            out.push(E::Regex(Box::new(col(c)), p.to_string()));
        }
    }
    out
}

/// Covering subset used for trees: one atom per (column, operator family, outcome class).
fn covering(atoms: &[E]) -> Vec<E> {
    let t = table().ref_table();
    let mut seen = BTreeSet::new();
    let mut out = vec![];
    for a in atoms {
        // class = (shape, set of rows it keeps under the three-valued reading, rows unknown)
        let mut kept = vec![];
        let mut ok = true;
        for r in &t.rows {
            match eval(a, r, false) {
                Ok(V::Null) => kept.push(2),
                Ok(V::I(0)) => kept.push(0),
                Ok(V::I(_)) => kept.push(1),
                _ => {
                    ok = false;
                    break;
                }
            }
        }
        if !ok {
            continue;
        }
        let has_unknown = kept.contains(&2);
        let n_true = kept.iter().filter(|k| **k == 1).count();
        let cls = (shape(a), has_unknown, n_true == 0, n_true == kept.len());
        if seen.insert(cls) {
            out.push(a.clone());
        }
    }
    out
}

pub fn predicates(tier: Tier) -> Vec<E> {
    let atoms = atoms(tier);
    let mut out = atoms.clone();
    for a in &atoms {
        out.push(E::Not(Box::new(a.clone())));
    }
    let cov = covering(&atoms);
    let cov: Vec<E> = match tier {
        Tier::Quick => cov.into_iter().step_by(3).take(45).collect(),
        Tier::Thorough => cov.into_iter().take(120).collect(),
    };
    for (i, a) in cov.iter().enumerate() {
        for (j, b) in cov.iter().enumerate() {
            if i == j {
                continue;
            }
            out.push(bin(BinOp::And, a.clone(), b.clone()));
            out.push(bin(BinOp::Or, a.clone(), b.clone()));
            if i < j {
                out.push(E::Not(Box::new(bin(BinOp::And, a.clone(), b.clone()))));
                out.push(bin(BinOp::Or, E::Not(Box::new(a.clone())), b.clone()));
            }
        }
    }
    out
}

pub fn filter_sig(kind: &str, p: &E) -> String {
    if kind.starts_with("error:") || kind == "hang" || kind == "caller-panic" {
        format!("filter:{}", kind)
    } else if is_tree(p) {
        format!("filter:{}:tree:{}", kind, tree_profile(p))
    } else {
        format!("filter:{}:{}", kind, shape(p))
    }
}

fn is_tree(p: &E) -> bool {
    match p {
        E::Bin(BinOp::And, ..) | E::Bin(BinOp::Or, ..) => true,
        E::Not(a) => is_tree(a),
        _ => false,
    }
}

fn refs_nullable(e: &E) -> bool {
    match e {
        E::Col(c) => matches!(c.as_str(), "ni" | "nf" | "ns" | "absent"),
        E::Int(_) | E::Float(_) | E::Str(_) => false,
        E::Bin(_, a, b) => refs_nullable(a) || refs_nullable(b),
        E::Not(a) | E::Neg(a) | E::IsNull(a) | E::IsNotNull(a) | E::Length(a) | E::Agg(_, a) => refs_nullable(a),
        E::Like(a, _) | E::NotLike(a, _) | E::Regex(a, _) => refs_nullable(a),
    }
}

/// Boolean structure of a tree with each leaf reduced to whether it involves a nullable column.
fn tree_profile(p: &E) -> String {
    match p {
        E::Bin(BinOp::And, a, b) => format!("({} And {})", tree_profile(a), tree_profile(b)),
        E::Bin(BinOp::Or, a, b) => format!("({} Or {})", tree_profile(a), tree_profile(b)),
        E::Not(a) if is_tree(a) => format!("Not{}", tree_profile(a)),
        E::Not(a) => format!("not-{}", tree_profile(a)),
        E::IsNull(_) | E::IsNotNull(_) => "nulltest".into(),
        other => if refs_nullable(other) { "nullable-atom".into() } else { "plain-atom".into() },
    }
}

/// Leaves of a boolean tree.
pub fn leaves(p: &E, out: &mut Vec<E>) {
    match p {
        E::Bin(BinOp::And, a, b) | E::Bin(BinOp::Or, a, b) => {
            leaves(a, out);
            leaves(b, out);
        }
        E::Not(a) if is_tree(a) => leaves(a, out),
        other => out.push(other.clone()),
    }
}

/// Structure of a predicate with constants replaced by their type.
pub fn shape(e: &E) -> String {
    match e {
        E::Col(c) => c.clone(),
        E::Int(_) => "int".into(),
        E::Float(_) => "float".into(),
        E::Str(_) => "str".into(),
        E::Bin(op, a, b) => format!("({} {:?} {})", shape(a), op, shape(b)),
        E::Not(a) => format!("not{}", shape(a)),
        E::Neg(a) => format!("neg{}", shape(a)),
        E::IsNull(a) => format!("isnull({})", shape(a)),
        E::IsNotNull(a) => format!("notnull({})", shape(a)),
        E::Like(a, _) => format!("like({})", shape(a)),
        E::NotLike(a, _) => format!("notlike({})", shape(a)),
        E::Regex(a, _) => format!("regex({})", shape(a)),
        E::Length(a) => format!("length({})", shape(a)),
        E::Agg(g, a) => format!("{:?}({})", g, shape(a)),
    }
}

/// Error message reduced to its stable part (no numbers, bounded length).
pub fn norm_msg(m: &str) -> String {
    let m = m.strip_prefix("Some assumption was violated. This is a bug: ").unwrap_or(m);
    let mut out = String::new();
    for c in m.chars() {
        if out.len() >= 60 {
            break;
        }
        if c.is_ascii_digit() {
            if !out.ends_with('#') {
                out.push('#');
            }
        } else if c.is_whitespace() {
            out.push('_');
        } else {
            out.push(c);
        }
    }
    out
}

#[derive(Clone, Debug, Serialize, Deserialize)]
pub struct FilterCase {
    pub layout: usize,
    pub pred: E,
}

fn ref_ids(t: &RefTable, pred: &E, two_valued: bool) -> Result<Vec<i64>, EvalErr> {
    let mut ids = vec![];
    for r in &t.rows {
        if passes(&Some(pred.clone()), r, two_valued)? {
            if let Some(RVal::Int(i)) = r.get("id") {
                ids.push(*i);
            }
        }
    }
    Ok(ids)
}

/// Returns (outcome class, optional violation detail)
pub fn check_filter(db: &mut Db, t: &RefTable, pred: &E) -> (String, Option<(String, String)>) {
    let q = Q::select("t", vec![col("id")]).filter(pred.clone());
    let sql = q.sql();
    let r3 = ref_ids(t, pred, false);
    let r2 = ref_ids(t, pred, true);
    let res = db.query(&sql);
    let _ = take_panics();
    match res {
        Outcome::Hang => ("hang".into(), Some(("hang".into(), format!("{} did not return", sql)))),
        Outcome::Panic(m) => ("caller-panic".into(), Some(("caller-panic".into(), format!("{} panicked in the caller: {}", sql, m)))),
        Outcome::Ok(Err((kind, msg))) => match (&r3, &r2) {
            (Err(_), _) | (_, Err(_)) => (format!("ref-undefined/err-{}", kind), None),
            // the engine declines the query with an error value: no wrong row is returned
            (Ok(_), Ok(_)) if kind == "TypeError" || kind == "NotImplemented" => (format!("declined-{}", kind), None),
            (Ok(_), Ok(_)) => (
                format!("err-{}", kind),
                Some((
                    format!("error:{}:{}", kind, norm_msg(&msg)),
                    format!("{} failed with {}: {} (reference keeps ids {:?})", sql, kind, msg, r3.as_ref().unwrap()),
                )),
            ),
        },
        Outcome::Ok(Ok(out)) => {
            let got: Vec<RVal> = out.rows.iter().map(|r| r.get(0).cloned().unwrap_or(RVal::Null)).collect();
            let eq = |want: &Vec<i64>| got.len() == want.len() && got.iter().zip(want).all(|(g, w)| *g == RVal::Int(*w));
            match (&r3, &r2) {
                (Ok(a), Ok(b)) => {
                    if eq(a) || eq(b) {
                        (if a.is_empty() { "ok-empty".into() } else if a.len() == t.rows.len() { "ok-all".into() } else { "ok-some".into() }, None)
                    } else {
                        let gs: BTreeSet<String> = got.iter().map(|g| format!("{:?}", g)).collect();
                        let ws: BTreeSet<String> = a.iter().map(|w| format!("{}", w)).collect();
                        let kind = if gs.is_subset(&ws) && gs.len() < ws.len() {
                            "rows-missing"
                        } else if ws.is_subset(&gs) && gs.len() > ws.len() {
                            "rows-extra"
                        } else if gs == ws {
                            "order-or-duplicates"
                        } else {
                            "rows-differ"
                        };
                        (
                            kind.into(),
                            Some((kind.into(), format!("{} returned ids {:?}, reference keeps {:?}", sql, got, a))),
                        )
                    }
                }
                _ => ("ref-undefined/ok".into(), None),
            }
        }
    }
}

/// The same predicate with the nullable columns in the select list: the rows kept must carry their own values.
pub fn check_projection(db: &mut Db, t: &RefTable, pred: &E) -> (String, Option<(String, String)>) {
    let q = Q::select("t", vec![col("id"), col("ni"), col("nf"), col("ns")]).filter(pred.clone());
    let c = crate::qeng::QCase { table: 0, layout: 0, q, mode: crate::qeng::Mode::Exact, nkeys: 0 };
    let (class, bad) = crate::qeng::check_query(db, t, &c, "C03");
    (class, bad.map(|(k, w)| (format!("projection:{}", k.split(':').next().unwrap_or("")), w)))
}

/// Atoms used for the projection check: positive atoms (NOT over a nullable comparison is judged by the id check).
fn projection_preds(preds: &[E]) -> Vec<E> {
    preds.iter().filter(|p| !is_tree(p) && !matches!(p, E::Not(_) | E::NotLike(..))).cloned().collect()
}

impl Engine for C03 {
    fn property(&self) -> &'static str {
        "C03"
    }

    fn describe(&self, tier: Tier) -> Describe {
        Describe {
            level: "model_checking",
            rule: "every predicate of the enumerated set {column op constant, constant op column, column op column, IS [NOT] NULL, [NOT] LIKE over all patterns up to length 3 of {%,_,a,b,c}, regex} over 9 column classes (u8+offset int, wide int, nullable int, float, nullable float, dictionary string, packed string, nullable string, absent column) x 6 comparison operators x constants below / at / inside / at / above the column range and of the other numeric type, every NOT atom, and AND / OR / NOT(AND) / (NOT a OR b) trees over a covering subset of atoms, evaluated as SELECT id FROM t WHERE p on 3 physical layouts; the returned ids must equal the ids the reference evaluator keeps; every positive atom is evaluated a second time as SELECT id, ni, nf, ns FROM t WHERE p (nullable columns read through the filter): the rows must be the reference rows with their own values. Non-trivial: the predicate keeps some but not all rows; distinct by predicate text.".into(),
            assumptions: vec![
                "NOT over a comparison with NULL: the three-valued and the two-valued reading are both accepted".into(),
                "a predicate whose operands have incompatible types (reference says type error) is not judged".into(),
                "12-row table; constants and patterns outside the alphabet are not covered".into(),
            ],
            bounds: json!({"predicates": predicates(tier).len(), "layouts": layouts().iter().map(|l| l.name.clone()).collect::<Vec<_>>(), "rows": 12}),
            states_meaning: "distinct (layout, predicate) pairs evaluated",
        }
    }

    fn run_shard(&self, tier: Tier, shard: usize, nshards: usize, out: &mut ShardResult) {
        let t = table();
        let rt = t.ref_table();
        let preds = predicates(tier);
        for (li, l) in layouts().iter().enumerate() {
            let mut db = match build(&t, l) {
                Ok(db) => db,
                Err(e) => {
                    if shard == 0 {
                        let panics = take_panics();
                        out.violation(Violation {
                            sig: format!("build:{}", l.name),
                            what: format!("building layout {} failed: {}; panics {:?}", l.name, e, panics),
                            weight: 1,
                            case: json!({"layout": li, "pred": E::Int(1)}),
                        });
                    }
                    continue;
                }
            };
            for (pi, p) in preds.iter().enumerate() {
                if pi % nshards != shard {
                    continue;
                }
                out.evaluations += 1;
                out.transitions += 1;
                let (class, bad) = check_filter(&mut db, &rt, p);
                out.states.insert(hash64(format!("{}|{}", li, p.sql()).as_bytes()));
                if class == "ok-some" {
                    out.nontrivial.insert(hash64(p.sql().as_bytes()));
                    if out.samples.len() < 3 && p.size() > 3 {
                        out.sample(json!({"layout": l.name, "query": Q::select("t", vec![col("id")]).filter(p.clone()).sql()}));
                    }
                }
                out.outcome(&class);
                if let Some((kind, what)) = bad {
                    // a tree that fails because one of its leaves fails on its own is that leaf's failure
                    let (mut kind, mut what, mut culprit) = (kind, what, p.clone());
                    if is_tree(p) && !db.dead {
                        let mut ls = vec![];
                        leaves(p, &mut ls);
                        for leaf in ls {
                            let (_, b) = check_filter(&mut db, &rt, &leaf);
                            if let Some((k, w)) = b {
                                kind = k;
                                what = w;
                                culprit = leaf;
                                break;
                            }
                        }
                    }
                    let p = &culprit;
                    if std::env::var("LVMC_TRACE").is_ok() {
                        eprintln!("[trace] {} :: {}", l.name, what);
                    }
                    out.violation(Violation {
                        sig: filter_sig(&kind, p),
                        what: format!("layout {}: {}", l.name, what),
                        weight: p.sql().len() as u64,
                        case: serde_json::to_value(FilterCase { layout: li, pred: p.clone() }).unwrap(),
                    });
                    if db.dead || class == "err-Canceled" || class == "hang" || class == "caller-panic" {
                        // a worker may be lost: continue on a fresh database so later cases are not poisoned
                        let fresh = build(&t, l);
                        let old = std::mem::replace(
                            &mut db,
                            match fresh {
                                Ok(d) => d,
                                Err(_) => break,
                            },
                        );
                        old.destroy();
                        out.count("databases_rebuilt_after_failure", 1);
                    }
                }
            }
            // projection of nullable columns through the filter
            if !db.dead {
                for (pi, p) in projection_preds(&preds).iter().enumerate() {
                    if pi % nshards != shard {
                        continue;
                    }
                    out.evaluations += 1;
                    out.transitions += 1;
                    let (class, bad) = check_projection(&mut db, &rt, p);
                    out.states.insert(hash64(format!("proj|{}|{}", li, p.sql()).as_bytes()));
                    out.outcome(&format!("projection:{}", class));
                    if let Some((kind, what)) = bad {
                        // the id check of the same predicate decides first: only report what it does not already report
                        let (_, id_bad) = check_filter(&mut db, &rt, p);
                        if id_bad.is_none() {
                            out.violation(Violation {
                                sig: filter_sig(&kind, p),
                                what: format!("layout {}: {}", l.name, what),
                                weight: p.sql().len() as u64,
                                case: serde_json::to_value(FilterCase { layout: li, pred: p.clone() }).unwrap(),
                            });
                        }
                        if db.dead {
                            break;
                        }
                    }
                }
            }
            db.destroy();
        }
    }

    fn replay(&self, case: &Value) -> Option<Violation> {
        let c: FilterCase = serde_json::from_value(case.clone()).expect("filter case");
        let t = table();
        let l = &layouts()[c.layout];
        let mut db = match build(&t, l) {
            Ok(db) => db,
            Err(e) => {
                return Some(Violation {
                    sig: format!("build:{}", l.name),
                    what: e,
                    weight: 1,
                    case: case.clone(),
                })
            }
        };
        let (_, mut bad) = check_filter(&mut db, &t.ref_table(), &c.pred);
        if bad.is_none() && !db.dead {
            bad = check_projection(&mut db, &t.ref_table(), &c.pred).1;
        }
        db.destroy();
        bad.map(|(kind, what)| Violation {
            sig: filter_sig(&kind, &c.pred),
            what,
            weight: 1,
            case: case.clone(),
        })
    }
}
