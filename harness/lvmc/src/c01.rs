//! C01: ingested values come back unchanged from a plain SELECT.
//! (a) builder state machine: all push sequences up to a depth on the real ColumnBuffer, decoded
//!     with the column decoder; (b) API product: column class x null pattern x length x batch
//!     representation x ingestion path x physical layout through the database and a SELECT.
use std::collections::BTreeSet;

use locustdb::verif::{ColumnBuffer as Builder, DataSource};
use ordered_float::OrderedFloat;
use serde::{Deserialize, Serialize};
use serde_json::{json, Value};

use crate::common::*;
use crate::hist::{compare_rows, qident};
use crate::runner::*;

pub struct C01;

// ---------------------------------------------------------------------------------------------
// value classes
// ---------------------------------------------------------------------------------------------

pub fn int_classes() -> Vec<(&'static str, fn(usize) -> i64)> {
    vec![
        ("u8", |i| ((i * 37) % 256) as i64),
        ("u8off", |i| 1000 + ((i * 7) % 200) as i64),
        ("negint", |i| -100 + ((i * 13) % 255) as i64),
        ("u16", |i| ((i * 257) % 65536) as i64),
        ("u32", |i| ((i as u64 * 65537 * 101) % (1u64 << 32)) as i64),
        ("i64full", |i| match i % 5 {
            0 => i64::MIN,
            1 => i64::MAX - 1,
            2 => -1,
            3 => 1 << 40,
            _ => 0,
        }),
        ("mono", |i| 1_000_000 + (i as i64) * 3),
        ("swing", |i| if i % 2 == 0 { i64::MIN + 1 } else { i64::MAX - 1 }),
        ("const", |_| 42),
        ("bigmono", |i| (1 << 50) + (i as i64) * (1 << 33)),
        // increasing runs whose delta form (first value, then differences) needs an offset:
        // negative start with small steps (u8 + offset), start inside the range of large steps
        // (u8 + offset 900), negative start with steps of 1000 (u16 + offset)
        ("mononeg", |i| -5 + 3 * (i as i64)),
        ("monostep", |i| 1000 + 1000 * (i as i64) + ((i % 3) as i64) * 50),
        ("mononeg16", |i| -300 + 1000 * (i as i64)),
    ]
}

pub fn float_classes() -> Vec<(&'static str, fn(usize) -> f64)> {
    vec![
        ("fmix", |i| {
            [0.0, -0.0, 1.5, 0.1, f64::MIN_POSITIVE / 4.0, f64::INFINITY, f64::NEG_INFINITY, f64::MAX, -1e-300, 3.0][i % 10]
        }),
        ("f32exact", |i| (i as f64) * 0.25 - 8.0),
        ("fnan", |i| if i % 3 == 0 { f64::NAN } else if i % 3 == 1 { f64::from_bits(0x7ff8_0000_0000_0001) } else { 2.5 }),
        ("fconst", |_| 0.1),
    ]
}

pub fn string_classes() -> Vec<(&'static str, fn(usize) -> String)> {
    vec![
        ("sdict", |i| ["alpha", "beta", "", "gamma"][i % 4].to_string()),
        ("sunique", |i| format!("val-{}-é", i)),
        ("slen", |i| match i % 4 {
            0 => "x".repeat(254),
            1 => "y".repeat(255),
            2 => "z".repeat(256),
            _ => "w".to_string(),
        }),
        ("shexl", |i| format!("{:016x}", (i as u64).wrapping_mul(0x9e37_79b9_7f4a_7c15))),
        ("shexu", |i| format!("{:016X}", (i as u64).wrapping_mul(0x9e37_79b9_7f4a_7c15))),
        ("shexdigits", |i| format!("{:012}", i * 7919)),
        ("shexodd", |i| format!("{:015x}", (i as u64).wrapping_mul(0x9e37_79b9_7f4a_7c15) >> 4)),
        // hex strings whose packed form is 254 / 255 / 256 / 510 bytes long (the length prefix of packed bytes changes at 255)
        ("shexlen", |i| {
            let unit = format!("{:016x}", (i as u64 + 1).wrapping_mul(0x9e37_79b9_7f4a_7c15));
            let chars = [508usize, 510, 512, 1020][i % 4];
            unit.repeat(chars / 16 + 1)[..chars].to_string()
        }),
        ("sempty", |_| String::new()),
        ("sone", |i| ["a", "b"][i % 2].to_string()),
    ]
}

#[derive(Clone, Copy, Debug, PartialEq, Eq, Hash, Serialize, Deserialize, PartialOrd, Ord)]
pub enum NullPat {
    None,
    All,
    First,
    Last,
    Alternating,
    SinglePresent,
    /// present prefix, NULL suffix (what a short dense column means)
    Tail,
}

impl NullPat {
    fn is_null(&self, i: usize, n: usize) -> bool {
        match self {
            NullPat::None => false,
            NullPat::All => true,
            NullPat::First => i == 0,
            NullPat::Last => i + 1 == n,
            NullPat::Alternating => i % 2 == 1,
            NullPat::SinglePresent => i != n / 2,
            NullPat::Tail => i >= (n + 1) / 2,
        }
    }
}

const PATS: [NullPat; 7] = [
    NullPat::None,
    NullPat::All,
    NullPat::First,
    NullPat::Last,
    NullPat::Alternating,
    NullPat::SinglePresent,
    NullPat::Tail,
];

fn column_values(class: &str, n: usize) -> Vec<RVal> {
    for (name, f) in int_classes() {
        if name == class {
            return (0..n).map(|i| ri(f(i))).collect();
        }
    }
    for (name, f) in float_classes() {
        if name == class {
            return (0..n).map(|i| rf(f(i))).collect();
        }
    }
    for (name, f) in string_classes() {
        if name == class {
            return (0..n).map(|i| rs(&f(i))).collect();
        }
    }
    match class {
        // degrade to a common type
        "mix_if" => (0..n).map(|i| if i % 2 == 0 { ri(i as i64) } else { rf(i as f64 + 0.5) }).collect(),
        "mix_is" => (0..n).map(|i| if i % 3 == 0 { rs(&format!("s{}", i)) } else { ri(i as i64 * 11) }).collect(),
        "mix_fs" => (0..n).map(|i| if i % 2 == 0 { rs("t") } else { rf(i as f64 * 0.5) }).collect(),
        _ => panic!("class {}", class),
    }
}

fn all_classes() -> Vec<String> {
    let mut v: Vec<String> = int_classes().iter().map(|(n, _)| n.to_string()).collect();
    v.extend(float_classes().iter().map(|(n, _)| n.to_string()));
    v.extend(string_classes().iter().map(|(n, _)| n.to_string()));
    v.extend(["mix_if", "mix_is", "mix_fs"].iter().map(|s| s.to_string()));
    v
}

// ---------------------------------------------------------------------------------------------
// (b) API product
// ---------------------------------------------------------------------------------------------

#[derive(Clone, Debug, Serialize, Deserialize, PartialEq, Eq, Hash)]
pub enum Lay {
    /// memory only, rows stay in the open buffer
    Buffer,
    /// on disk, flushed
    Flushed,
    /// on disk, flushed, reopened (columns read back from files)
    Cold,
    /// flushed, without generic compression of sections
    NoLz4,
    /// two batches into the same open buffer, then flushed (second batch repeats the first)
    TwoChunks,
}

#[derive(Clone, Debug, Serialize, Deserialize)]
pub struct ApiCase {
    pub n: usize,
    pub pat: NullPat,
    pub path: IngestPath,
    pub lay: Lay,
    /// representation family: 0 = natural, 1 = mixed for everything, 2 = sparse / short where applicable
    pub repr_family: u8,
    /// restrict to these classes (replay of a minimised case); empty = all
    pub classes: Vec<String>,
}

fn build_batch(c: &ApiCase) -> (Batch, Vec<String>) {
    let n = c.n;
    let classes: Vec<String> = if c.classes.is_empty() { all_classes() } else { c.classes.clone() };
    let mut tb = TableBatch::new("t", n);
    tb = tb.col("id", (0..n).map(|i| ri(i as i64)).collect());
    let mut used = vec![];
    for class in classes {
        let vals: Vec<RVal> = column_values(&class, n)
            .into_iter()
            .enumerate()
            .map(|(i, v)| if c.pat.is_null(i, n) { RVal::Null } else { v })
            .collect();
        let has_null = vals.iter().any(|v| v.is_null());
        let all_null = vals.iter().all(|v| v.is_null());
        let is_str = vals.iter().any(|v| matches!(v, RVal::Str(_)));
        let repr = match c.repr_family {
            0 => Repr::Auto,
            1 => {
                if all_null {
                    // column missing from the batch altogether
                    continue;
                } else {
                    Repr::Mixed
                }
            }
            _ => {
                if !is_str && !class.starts_with("mix") && has_null && !all_null && repr_applicable(&vals, Repr::ShortDense) {
                    Repr::ShortDense
                } else {
                    Repr::Auto
                }
            }
        };
        if !repr_applicable(&vals, repr) {
            continue;
        }
        tb = tb.col_repr(&format!("c_{}", class), vals, repr);
        used.push(format!("c_{}", class));
    }
    // row API needs a timestamp column
    if c.path == IngestPath::RowApi {
        tb = tb.col("timestamp", (0..n).map(|i| rf(1000.0 + i as f64)).collect());
        used.push("timestamp".into());
    }
    (Batch::one(tb), used)
}

fn lay_opts(l: &Lay) -> DbOpts {
    let base = DbOpts::default();
    match l {
        Lay::Buffer => DbOpts { on_disk: false, ..base },
        Lay::Flushed | Lay::Cold | Lay::TwoChunks => base,
        Lay::NoLz4 => DbOpts { mem_lz4: false, ..base },
    }
}

pub fn run_api_case(c: &ApiCase, transitions: &mut u64) -> Option<(String, String, Vec<String>)> {
    let (batch, cols) = build_batch(c);
    // drop columns the path cannot express
    let mut batch = batch;
    if c.path != IngestPath::Wire {
        let keep: Vec<ColSpec> = batch.tables[0]
            .cols
            .iter()
            .filter(|col| {
                let one = Batch::one(TableBatch {
                    table: "t".into(),
                    rows: c.n,
                    cols: {
                        let mut v = vec![(*col).clone()];
                        if c.path == IngestPath::RowApi && col.name != "timestamp" {
                            v.push(ColSpec { name: "timestamp".into(), vals: vec![rf(0.0); c.n], repr: Repr::Auto });
                        }
                        if c.path == IngestPath::Native && col.name != "id" {
                            v.push(ColSpec { name: "id".into(), vals: vec![ri(0); c.n], repr: Repr::Auto });
                        }
                        v
                    },
                });
                path_applicable(&one, c.path)
            })
            .cloned()
            .collect();
        batch.tables[0].cols = keep;
    }
    if c.path == IngestPath::RowApi {
        // the row API never mentions a column without a value: such a column does not come into existence
        batch.tables[0].cols.retain(|col| col.vals.iter().any(|v| !v.is_null()));
    }
    let cols: Vec<String> = cols.into_iter().filter(|n| batch.tables[0].cols.iter().any(|c| c.name == *n)).collect();
    if batch.tables[0].cols.len() < 2 {
        return None;
    }
    let opts = lay_opts(&c.lay);
    let (mut db, r) = Db::open(&opts, None);
    let fail = |db: Db, sig: String, what: String, cols: Vec<String>| {
        db.destroy();
        Some((sig, what, cols))
    };
    if !matches!(r, Outcome::Ok(())) {
        return fail(db, "open".into(), r.describe(), vec![]);
    }
    let mut refdb = RefDb::default();
    let rounds = if c.lay == Lay::TwoChunks { 2 } else { 1 };
    for _ in 0..rounds {
        *transitions += 1;
        let r = db.ingest_batch(&batch, c.path);
        refdb.apply(&batch);
        if !matches!(r, Outcome::Ok(())) {
            let panics = take_panics();
            return fail(
                db,
                format!("ingest:{}:{}", if matches!(r, Outcome::Hang) { "hang" } else { "caller-panic" }, panics.first().map(panic_file).unwrap_or_default()),
                format!("ingestion {}; panics {:?}", r.describe(), panics),
                vec![],
            );
        }
    }
    if opts.on_disk {
        *transitions += 1;
        let r = db.flush();
        if !matches!(r, Outcome::Ok(())) {
            let panics = take_panics();
            return fail(
                db,
                format!("flush:{}:{}", if matches!(r, Outcome::Hang) { "hang" } else { "caller-panic" }, panics.first().map(panic_file).unwrap_or_default()),
                format!("force_flush {}; panics {:?}", r.describe(), panics),
                vec![],
            );
        }
    }
    if c.lay == Lay::Cold {
        *transitions += 1;
        let r = db.restart();
        if !matches!(r, Outcome::Ok(())) {
            return fail(db, "restart".into(), r.describe(), vec![]);
        }
    }
    let rt = refdb.tables["t"].clone();
    // every column on its own (both views), then SELECT *
    let mut queries: Vec<(String, Vec<String>)> = cols.iter().map(|col| (format!("SELECT {} FROM t", qident(col)), vec![col.clone()])).collect();
    let all: Vec<String> = rt.columns.iter().cloned().collect();
    queries.push(("SELECT * FROM t".to_string(), all));
    for (q, want_cols) in queries {
        *transitions += 1;
        let res = db.query(&q);
        let panics = take_panics();
        match res {
            Outcome::Ok(Ok(out)) => {
                if let Some((sig, what)) = compare_rows(&rt, &want_cols, &out, "select") {
                    let col = want_cols.first().cloned().unwrap_or_default();
                    let culprit = if want_cols.len() == 1 { vec![col.trim_start_matches("c_").to_string()] } else { vec![] };
                    // signature: failure class without the column name when it is a cell problem of one column
                    let sig = if want_cols.len() == 1 { format!("{}:{}", col, sig.replace(&format!(":{}:", col), ":")) } else { format!("star:{}", sig) };
                    return fail(db, sig, format!("{}: {}", q, what), culprit);
                }
            }
            Outcome::Ok(Err((kind, msg))) => {
                let col = want_cols.first().cloned().unwrap_or_default();
                let culprit = if want_cols.len() == 1 { vec![col.trim_start_matches("c_").to_string()] } else { vec![] };
                return fail(
                    db,
                    format!("{}:error:{}:{}:{}", if want_cols.len() == 1 { col } else { "star".into() }, kind, crate::c03::norm_msg(&msg), panics.first().map(panic_file).unwrap_or_default()),
                    format!("{} failed: {}: {}; panics {:?}", q, kind, msg, panics),
                    culprit,
                );
            }
            other => {
                return fail(db, format!("query:{}", if matches!(other, Outcome::Hang) { "hang" } else { "caller-panic" }), format!("{}: {}", q, other.describe()), vec![]);
            }
        }
    }
    db.destroy();
    None
}

pub fn panic_file(p: &PanicRec) -> String {
    // file without the line number: stable under unrelated edits
    let loc = p.location.trim_start_matches("/repo/");
    loc.rsplit_once(':').map(|x| x.0).unwrap_or(loc).to_string()
}

fn api_cases(tier: Tier) -> Vec<ApiCase> {
    let mut out = vec![];
    let lens: Vec<usize> = vec![1, 2, 7, 8, 9, 63, 64, 65];
    for n in lens {
        for pat in PATS {
            for (path, fams) in [(IngestPath::Wire, vec![0u8, 1, 2]), (IngestPath::Native, vec![0, 1]), (IngestPath::RowApi, vec![0])] {
                for fam in fams {
                    for lay in [Lay::Buffer, Lay::Flushed, Lay::Cold, Lay::NoLz4, Lay::TwoChunks] {
                        if tier == Tier::Quick {
                            // quick: every (n, pattern, path, family) on two rotating layouts; all layouts for the boundary lengths
                            let k = n + pat as usize + fam as usize;
                            let pick = [Lay::Buffer, Lay::Flushed, Lay::Cold, Lay::NoLz4, Lay::TwoChunks];
                            if !(lay == pick[k % 5] || lay == pick[(k + 2) % 5]) {
                                continue;
                            }
                            if path != IngestPath::Wire && lay != pick[k % 5] {
                                continue;
                            }
                        }
                        out.push(ApiCase { n, pat, path, lay, repr_family: fam, classes: vec![] });
                    }
                }
            }
        }
    }
    // dictionary width boundaries (u16 / u32 dictionaries) once
    for n in if tier == Tier::Quick { vec![600usize] } else { vec![600, 140_000] } {
        for lay in [Lay::Flushed, Lay::Cold] {
            out.push(ApiCase {
                n,
                pat: NullPat::None,
                path: IngestPath::Wire,
                lay: lay.clone(),
                repr_family: 0,
                classes: vec!["sunique".into(), "sdict".into(), "u32".into(), "mono".into(), "fmix".into()],
            });
            out.push(ApiCase {
                n,
                pat: NullPat::Alternating,
                path: IngestPath::Wire,
                lay,
                repr_family: 1,
                classes: vec!["sunique".into(), "u16".into(), "f32exact".into()],
            });
        }
    }
    out
}

// ---------------------------------------------------------------------------------------------
// (a) builder state machine
// ---------------------------------------------------------------------------------------------

#[derive(Clone, Debug, Serialize, Deserialize, PartialEq, Eq, Hash)]
pub enum Push {
    Ints(String, usize, NullPat),
    Floats(String, usize, NullPat),
    Strs(String, usize, NullPat),
    Nulls(usize),
}

fn push_alphabet(tier: Tier) -> Vec<Push> {
    let mut v = vec![];
    let lens: Vec<usize> = if tier == Tier::Quick { vec![1, 8, 9] } else { vec![1, 7, 8, 9] };
    for n in &lens {
        for c in ["u8", "u8off", "i64full", "mono", "swing"] {
            v.push(Push::Ints(c.into(), *n, NullPat::None));
        }
        if *n >= 8 {
            v.push(Push::Ints("mononeg".into(), *n, NullPat::None));
            v.push(Push::Ints("monostep".into(), *n, NullPat::First));
        }
        v.push(Push::Ints("u16".into(), *n, NullPat::Alternating));
        v.push(Push::Ints("negint".into(), *n, NullPat::First));
        v.push(Push::Floats("fmix".into(), *n, NullPat::None));
        v.push(Push::Floats("f32exact".into(), *n, NullPat::Alternating));
        v.push(Push::Floats("fnan".into(), *n, NullPat::First));
        for c in ["sdict", "sunique", "shexl", "shexlen"] {
            v.push(Push::Strs(c.into(), *n, NullPat::None));
        }
        v.push(Push::Strs("slen".into(), *n, NullPat::Alternating));
        v.push(Push::Strs("shexu".into(), *n, NullPat::First));
    }
    v.push(Push::Nulls(1));
    v.push(Push::Nulls(8));
    v
}

fn present_map(pat: NullPat, n: usize) -> Option<Vec<u8>> {
    if pat == NullPat::None {
        return None;
    }
    let mut m = vec![0u8; n.div_ceil(8)];
    for i in 0..n {
        if !pat.is_null(i, n) {
            m[i / 8] |= 1 << (i % 8);
        }
    }
    Some(m)
}

/// Executes the push sequence on the real builder; returns the decoded values (through the column
/// decoder) or a failure description.
pub fn run_builder(seq: &[Push]) -> Result<(Vec<RVal>, Vec<RVal>, BTreeSet<char>), String> {
    let mut b = Builder::default();
    let mut model: Vec<RVal> = vec![];
    let mut kinds = BTreeSet::new();
    for p in seq {
        match p {
            Push::Ints(c, n, pat) => {
                let vals = column_values(c, *n);
                let pm = present_map(*pat, *n);
                b.push_ints(
                    vals.iter().map(|v| match v {
                        RVal::Int(i) => *i,
                        _ => unreachable!(),
                    }),
                    pm.as_deref(),
                );
                for (i, v) in vals.into_iter().enumerate() {
                    model.push(if pat.is_null(i, *n) { RVal::Null } else { v });
                }
                if *pat != NullPat::All {
                    kinds.insert('i');
                }
            }
            Push::Floats(c, n, pat) => {
                let vals = column_values(c, *n);
                let pm = present_map(*pat, *n);
                b.push_floats(vals.iter().map(|v| OrderedFloat(v.f().unwrap())), pm.as_deref());
                for (i, v) in vals.into_iter().enumerate() {
                    model.push(if pat.is_null(i, *n) { RVal::Null } else { v });
                }
                kinds.insert('f');
            }
            Push::Strs(c, n, pat) => {
                let vals = column_values(c, *n);
                let pm = present_map(*pat, *n);
                let strs: Vec<String> = vals
                    .iter()
                    .map(|v| match v {
                        RVal::Str(s) => s.clone(),
                        _ => unreachable!(),
                    })
                    .collect();
                b.push_strings(strs.iter().map(|s| s.as_str()), pm.as_deref());
                for (i, v) in vals.into_iter().enumerate() {
                    model.push(if pat.is_null(i, *n) { RVal::Null } else { v });
                }
                kinds.insert('s');
            }
            Push::Nulls(n) => {
                b.push_nulls(*n);
                for _ in 0..*n {
                    model.push(RVal::Null);
                }
            }
        }
    }
    if b.len() != model.len() {
        return Err(format!("builder length {} after pushing {} values", b.len(), model.len()));
    }
    let col = b.finalize("c");
    if col.len() != model.len() {
        return Err(format!("finalized column has length {}, {} values were pushed", col.len(), model.len()));
    }
    let mut store = Vec::new();
    let decoded = col.decode(&mut store);
    if decoded.len() != model.len() {
        return Err(format!("decoded column has length {}, {} values were pushed", decoded.len(), model.len()));
    }
    let got: Vec<RVal> = (0..decoded.len()).map(|i| RVal::from_raw(&decoded.get_raw(i))).collect();
    Ok((model, got, kinds))
}

fn check_builder(seq: &[Push]) -> Option<(String, String)> {
    let r = std::panic::catch_unwind(|| run_builder(seq));
    let panics = take_panics();
    match r {
        Err(_) => Some((
            format!("builder:panic:{}", panics.first().map(panic_file).unwrap_or_default()),
            format!("push sequence {:?} panicked: {:?}", seq, panics),
        )),
        Ok(Err(e)) => Some(("builder:length".into(), format!("push sequence {:?}: {}", seq, e))),
        Ok(Ok((model, got, kinds))) => {
            for i in 0..model.len() {
                if !cell_matches(&model[i], &got[i], Some(&kinds)) {
                    let cls = |v: &RVal| match v {
                        RVal::Null => "null",
                        RVal::Int(_) => "int",
                        RVal::Float(_) => "float",
                        RVal::Str(_) => "str",
                    };
                    return Some((
                        format!("builder:cell:{}->{}:kinds={:?}", cls(&model[i]), cls(&got[i]), kinds),
                        format!("push sequence {:?}: row {} decodes to {:?}, pushed {:?}", seq, i, got[i], model[i]),
                    ));
                }
            }
            None
        }
    }
}

#[derive(Clone, Debug, Serialize, Deserialize)]
pub enum C01Case {
    Api(ApiCase),
    Builder(Vec<Push>),
    Csv(CsvCase),
}

// ---------------------------------------------------------------------------------------------
// (c) CSV load
// ---------------------------------------------------------------------------------------------

#[derive(Clone, Debug, Serialize, Deserialize)]
pub struct CsvCase {
    pub n: usize,
    pub pat: NullPat,
    pub partition_size: usize,
}

const CSV_CLASSES: [&str; 21] = [
    "u8", "u8off", "negint", "u16", "u32", "i64full", "mono", "swing", "const", "bigmono", "mononeg", "monostep", "mononeg16", "f32exact", "fconst", "fmix", "fnan", "sunique", "slen", "sone", "sdict",
];

pub fn run_csv_case(c: &CsvCase, tr: &mut u64) -> Option<(String, String)> {
    // logical content: an empty field is NULL (all columns allow NULL)
    let mut tb = TableBatch::new("t", c.n).col("id", (0..c.n).map(|i| ri(i as i64)).collect());
    for class in CSV_CLASSES {
        let vals: Vec<RVal> = column_values(class, c.n)
            .into_iter()
            .enumerate()
            .map(|(i, v)| {
                if c.pat.is_null(i, c.n) || v == rs("") {
                    RVal::Null
                } else if let RVal::Float(b) = &v {
                    // NaN payloads do not survive text; the canonical NaN does
                    if f64::from_bits(*b).is_nan() { rf(f64::NAN) } else { v }
                } else {
                    v
                }
            })
            .collect();
        tb = tb.col(&format!("c_{}", class), vals);
    }
    let batch = Batch::one(tb);
    let dir = fresh_dir();
    let file = dir.join("data.csv");
    let mut text = String::new();
    let t = &batch.tables[0];
    text.push_str(&t.cols.iter().map(|c| c.name.clone()).collect::<Vec<_>>().join(","));
    text.push('\n');
    for r in 0..c.n {
        let fields: Vec<String> = t
            .cols
            .iter()
            .map(|col| match &col.vals[r] {
                RVal::Null => String::new(),
                RVal::Int(i) => i.to_string(),
                RVal::Float(b) => format!("{:?}", f64::from_bits(*b)),
                RVal::Str(s) => s.clone(),
            })
            .collect();
        text.push_str(&fields.join(","));
        text.push('\n');
    }
    std::fs::write(&file, text).unwrap();
    let opts = DbOpts::default();
    let (mut db, r) = Db::open(&opts, Some(dir.join("db")));
    if !matches!(r, Outcome::Ok(())) {
        db.destroy();
        return Some(("csv:open".into(), r.describe()));
    }
    let psize = c.partition_size;
    let f2 = file.clone();
    *tr += 1;
    let r = db.call(move |db, rt| {
        let o = locustdb::LoadOptions::new(&f2, "t").with_partition_size(psize).allow_nulls_all_columns();
        rt.block_on(db.load_csv(o)).map_err(|e| e.to_string())
    });
    let panics = take_panics();
    let fin = |db: Db, r: Option<(String, String)>| {
        db.destroy();
        let _ = std::fs::remove_dir_all(&dir);
        r
    };
    match r {
        Outcome::Ok(Ok(())) => {}
        Outcome::Ok(Err(e)) => return fin(db, Some(("csv:load-error".into(), format!("{:?}: load_csv failed: {}", c, e)))),
        other => {
            return fin(
                db,
                Some((
                    format!("csv:load-{}:{}", if matches!(other, Outcome::Hang) { "hang" } else { "caller-panic" }, panics.first().map(panic_file).unwrap_or_default()),
                    format!("{:?}: load_csv {}; panics {:?}", c, other.describe(), panics.iter().map(|p| &p.message).collect::<Vec<_>>()),
                )),
            )
        }
    }
    let mut refdb = RefDb::default();
    refdb.apply(&batch);
    let rt = refdb.tables["t"].clone();
    for col in rt.columns.iter() {
        *tr += 1;
        match db.query(&format!("SELECT {} FROM t", qident(col))) {
            Outcome::Ok(Ok(out)) => {
                // a column without any value is typed by nothing: it reads as NULL throughout
                if let Some((sig, what)) = compare_rows(&rt, &[col.clone()], &out, "csv") {
                    return fin(db, Some((format!("csv:{}:{}", col, sig.replace(&format!(":{}:", col), ":")), format!("{:?}: column {}: {}", c, col, what))));
                }
            }
            Outcome::Ok(Err((k, m))) => return fin(db, Some((format!("csv:{}:error:{}", col, k), format!("{:?}: SELECT {} failed: {}: {}", c, col, k, m)))),
            other => return fin(db, Some(("csv:query-no-answer".into(), other.describe()))),
        }
    }
    fin(db, None)
}

fn csv_cases() -> Vec<CsvCase> {
    let mut v = vec![];
    for n in [1usize, 2, 7, 8, 9, 63, 64, 65] {
        for pat in PATS {
            for partition_size in [1usize << 16, 7] {
                v.push(CsvCase { n, pat, partition_size });
            }
        }
    }
    v
}

impl Engine for C01 {
    fn property(&self) -> &'static str {
        "C01"
    }

    fn describe(&self, tier: Tier) -> Describe {
        let a = push_alphabet(tier).len();
        let depth = if tier == Tier::Quick { 2 } else { 3 };
        Describe {
            level: "model_checking",
            rule: "(a) every sequence of up to `depth` pushes over the push alphabet (ints of 5+2 magnitude classes, floats incl. -0.0/subnormal/inf/NaN payloads, dictionary / unique / hex / long strings, each with no / alternating / first-row null map, chunk lengths 1,(7),8,9, push_nulls(1|8)) on the real ColumnBuffer, finalized and decoded with the column decoder, compared value by value with the pushed values; (b) every (length in {1,2,7,8,9,63,64,65}, null pattern in {none, all, first, last, alternating, single present, tail}, ingestion path in {wire bytes, native TableBuffer, row API}, representation family, layout in {open buffer, flushed, flushed+reopened, no lz4, two chunks then flushed}) - one table holding all 30 column classes (13 integer incl. three increasing runs whose delta form needs an offset, 4 float, 10 string incl. hex strings whose packed length is 254 / 255 / 256 / 510 bytes, 3 mixed-type) - ingested into a real database and read back with SELECT c for every column and SELECT *; cells must equal the supplied values (ints exact, floats by bits, strings by bytes, NULL where none was supplied; documented coercion for mixed-type columns); (c) a generated CSV file with 21 column classes for every length x null pattern x partition size {65536, 7} loaded with load_csv and read back. Non-trivial: case contains a non-NULL value; distinct by case description.".into(),
            assumptions: vec![
                "2^63-1 and the NaN pattern 0x7ffaaaaaaaaaaaaa are outside the value domain (reserved NULL markers)".into(),
                "mixed-type columns: a cell may come back as its documented coercion (int -> float, number -> its decimal string)".into(),
                "CSV: an empty field is NULL (all columns loaded with allow_nulls), NaN payloads do not survive text".into(),
            ],
            bounds: json!({"push_alphabet": a, "builder_depth": depth, "api_cases": api_cases(tier).len(), "column_classes": all_classes()}),
            states_meaning: "distinct builder push sequences and distinct API cases executed",
        }
    }

    fn run_shard(&self, tier: Tier, shard: usize, nshards: usize, out: &mut ShardResult) {
        // (a) builder sequences
        let alpha = push_alphabet(tier);
        let depth = if tier == Tier::Quick { 2 } else { 3 };
        let mut idx = 0usize;
        let mut seqs: Vec<Vec<Push>> = vec![];
        for a in &alpha {
            seqs.push(vec![a.clone()]);
        }
        for a in &alpha {
            for b in &alpha {
                seqs.push(vec![a.clone(), b.clone()]);
            }
        }
        if depth >= 3 {
            for a in &alpha {
                for b in &alpha {
                    for c in &alpha {
                        seqs.push(vec![a.clone(), b.clone(), c.clone()]);
                    }
                }
            }
        } else {
            // depth 3 for the chunk-length-9 and length-1 letters only (bit-map byte boundary)
            let small: Vec<&Push> = alpha
                .iter()
                .filter(|p| match p {
                    Push::Ints(_, n, _) | Push::Floats(_, n, _) | Push::Strs(_, n, _) => *n == 9,
                    Push::Nulls(n) => *n == 1,
                })
                .collect();
            for a in &small {
                for b in &small {
                    for c in &small {
                        seqs.push(vec![(*a).clone(), (*b).clone(), (*c).clone()]);
                    }
                }
            }
        }
        for s in &seqs {
            idx += 1;
            if idx % nshards != shard {
                continue;
            }
            out.evaluations += 1;
            out.transitions += s.len() as u64 + 2;
            let h = hash64(format!("{:?}", s).as_bytes());
            out.states.insert(h);
            out.nontrivial.insert(h);
            match check_builder(s) {
                None => out.outcome("builder-ok"),
                Some((sig, what)) => {
                    if std::env::var("LVMC_TRACE").is_ok() {
                        eprintln!("[trace] {} :: {}", sig, what);
                    }
                    out.outcome("builder-violation");
                    out.violation(Violation {
                        sig: format!("C01:{}", sig),
                        what,
                        weight: s.len() as u64,
                        case: serde_json::to_value(C01Case::Builder(s.clone())).unwrap(),
                    });
                }
            }
        }
        if shard == 0 {
            out.sample(json!({"builder_sequence": seqs[alpha.len() + 5]}));
        }
        // (b) API product
        for (i, c) in api_cases(tier).iter().enumerate() {
            if i % nshards != shard {
                continue;
            }
            out.evaluations += 1;
            let h = hash64(format!("{:?}", c).as_bytes());
            out.states.insert(h);
            if c.pat != NullPat::All {
                out.nontrivial.insert(h);
            }
            let mut tr = 0;
            let r = run_api_case(c, &mut tr);
            out.transitions += tr;
            match r {
                None => out.outcome("api-ok"),
                Some((sig, what, culprit)) => {
                    // re-run with the culprit column alone to get a small replay case
                    let mut small = c.clone();
                    if !culprit.is_empty() {
                        small.classes = culprit;
                    }
                    let mut tr2 = 0;
                    let (case, sig, what) = match run_api_case(&small, &mut tr2) {
                        Some((s2, w2, _)) if s2 == sig => (small, s2, w2),
                        _ => (c.clone(), sig, what),
                    };
                    if std::env::var("LVMC_TRACE").is_ok() {
                        eprintln!("[trace] {:?} :: {} :: {}", case, sig, what);
                    }
                    out.outcome("api-violation");
                    out.violation(Violation {
                        sig: format!("C01:api:{}:{:?}", sig, c.pat),
                        what: format!("{:?}: {}", case, what),
                        weight: (case.n * (if case.classes.is_empty() { 30 } else { case.classes.len() })) as u64,
                        case: serde_json::to_value(C01Case::Api(case)).unwrap(),
                    });
                }
            }
            if out.samples.len() < 3 && c.pat == NullPat::Alternating {
                out.sample(json!({"api_case": c}));
            }
        }
        // (c) CSV load of a generated file
        for (i, c) in csv_cases().iter().enumerate() {
            if (i + 5) % nshards != shard {
                continue;
            }
            out.evaluations += 1;
            let h = hash64(format!("{:?}", c).as_bytes());
            out.states.insert(h);
            out.nontrivial.insert(h);
            let mut tr = 0;
            let r = run_csv_case(c, &mut tr);
            out.transitions += tr;
            match r {
                None => out.outcome("csv-ok"),
                Some((sig, what)) => {
                    if std::env::var("LVMC_TRACE").is_ok() {
                        eprintln!("[trace] {} :: {}", sig, what);
                    }
                    out.outcome("csv-violation");
                    out.violation(Violation {
                        sig: format!("C01:{}:{:?}", sig, c.pat),
                        what,
                        weight: c.n as u64 * 20,
                        case: serde_json::to_value(C01Case::Csv(c.clone())).unwrap(),
                    });
                }
            }
        }
    }

    fn replay(&self, case: &Value) -> Option<Violation> {
        let c: C01Case = serde_json::from_value(case.clone()).expect("C01 case");
        match c {
            C01Case::Csv(cc) => {
                let mut tr = 0;
                run_csv_case(&cc, &mut tr).map(|(sig, what)| Violation { sig: format!("C01:{}:{:?}", sig, cc.pat), what, weight: 1, case: case.clone() })
            }
            C01Case::Builder(s) => check_builder(&s).map(|(sig, what)| Violation {
                sig: format!("C01:{}", sig),
                what,
                weight: 1,
                case: case.clone(),
            }),
            C01Case::Api(a) => {
                let mut tr = 0;
                run_api_case(&a, &mut tr).map(|(sig, what, _)| Violation {
                    sig: format!("C01:api:{}:{:?}", sig, a.pat),
                    what,
                    weight: 1,
                    case: case.clone(),
                })
            }
        }
    }
}

pub fn values_for(class: &str, n: usize) -> Vec<RVal> {
    column_values(class, n)
}

pub fn present_for(pat: NullPat, n: usize) -> Option<Vec<u8>> {
    present_map(pat, n)
}

pub fn push_alphabet_pub(tier: Tier) -> Vec<Push> {
    push_alphabet(tier)
}
