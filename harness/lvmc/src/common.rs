//! Shared machinery: value model, batch builders, database driver with deadlines,
//! panic capture, result normalisation.
use std::collections::{BTreeMap, BTreeSet, HashMap};
use std::panic::{catch_unwind, AssertUnwindSafe};
use std::path::{Path, PathBuf};
use std::sync::atomic::{AtomicU64, Ordering};
use std::sync::mpsc;
use std::sync::{Arc, Mutex};
use std::time::Duration;

use locustdb::{BasicTypeColumn, LocustDB, Options, QueryError, QueryOutput, Value};
use locustdb_serialization::api::AnyVal;
use locustdb_serialization::event_buffer::{ColumnBuffer, ColumnData, EventBuffer, TableBuffer};
use locustdb_serialization::wal_segment_capnp;
use serde::{Deserialize, Serialize};

// ---------------------------------------------------------------------------------------------
// Values
// ---------------------------------------------------------------------------------------------

/// Reference value. Floats are carried by bit pattern so that equality is bit equality.
#[derive(Clone, PartialEq, Eq, Hash, PartialOrd, Ord, Serialize, Deserialize)]
pub enum RVal {
    Null,
    Int(i64),
    Float(u64),
    Str(String),
}

impl std::fmt::Debug for RVal {
    fn fmt(&self, f: &mut std::fmt::Formatter) -> std::fmt::Result {
        match self {
            RVal::Null => write!(f, "NULL"),
            RVal::Int(i) => write!(f, "{}", i),
            RVal::Float(b) => {
                let x = f64::from_bits(*b);
                if x.is_nan() {
                    write!(f, "NaN[{:016x}]f", b)
                } else {
                    write!(f, "{:?}f", x)
                }
            }
            RVal::Str(s) => {
                if s.len() > 40 {
                    write!(f, "{:?}..({}B)", &s.chars().take(16).collect::<String>(), s.len())
                } else {
                    write!(f, "{:?}", s)
                }
            }
        }
    }
}

pub fn rf(x: f64) -> RVal {
    RVal::Float(x.to_bits())
}
pub fn ri(x: i64) -> RVal {
    RVal::Int(x)
}
pub fn rs(x: &str) -> RVal {
    RVal::Str(x.to_string())
}

impl RVal {
    pub fn f(&self) -> Option<f64> {
        match self {
            RVal::Float(b) => Some(f64::from_bits(*b)),
            _ => None,
        }
    }
    pub fn is_null(&self) -> bool {
        matches!(self, RVal::Null)
    }
    pub fn from_raw(v: &Value) -> RVal {
        match v {
            Value::Int(i) => RVal::Int(*i),
            Value::Float(f) => RVal::Float(f.0.to_bits()),
            Value::Str(s) => RVal::Str(s.clone()),
            Value::Null => RVal::Null,
        }
    }
    pub fn to_anyval(&self) -> AnyVal {
        match self {
            RVal::Null => AnyVal::Null,
            RVal::Int(i) => AnyVal::Int(*i),
            RVal::Float(b) => AnyVal::Float(f64::from_bits(*b)),
            RVal::Str(s) => AnyVal::Str(s.clone()),
        }
    }
    /// Text LocustDB produces when a number lands in a string column (documented coercion).
    pub fn coerced_string(&self) -> Option<String> {
        match self {
            RVal::Int(i) => Some(i.to_string()),
            RVal::Float(b) => Some(f64::from_bits(*b).to_string()),
            RVal::Str(s) => Some(s.clone()),
            RVal::Null => None,
        }
    }
}

// ---------------------------------------------------------------------------------------------
// Batches
// ---------------------------------------------------------------------------------------------

/// How a column of a batch is represented in the ingestion message.
#[derive(Clone, Copy, Debug, PartialEq, Eq, Hash, Serialize, Deserialize, PartialOrd, Ord)]
pub enum Repr {
    /// Pick the natural dense representation for the values (Dense/I64/String/Empty, Mixed otherwise)
    Auto,
    Dense,
    Sparse,
    I64,
    SparseI64,
    Str,
    Mixed,
    Empty,
    /// Dense/I64 column that is shorter than the table (trailing NULLs)
    ShortDense,
}

#[derive(Clone, Debug, Serialize, Deserialize, PartialEq, Eq, Hash)]
pub struct ColSpec {
    pub name: String,
    pub vals: Vec<RVal>,
    pub repr: Repr,
}

#[derive(Clone, Debug, Serialize, Deserialize, PartialEq, Eq, Hash)]
pub struct TableBatch {
    pub table: String,
    pub rows: usize,
    pub cols: Vec<ColSpec>,
}

/// One ingestion request (may touch several tables).
#[derive(Clone, Debug, Serialize, Deserialize, PartialEq, Eq, Hash)]
pub struct Batch {
    pub tables: Vec<TableBatch>,
}

impl TableBatch {
    pub fn new(table: &str, rows: usize) -> TableBatch {
        TableBatch {
            table: table.to_string(),
            rows,
            cols: vec![],
        }
    }
    pub fn col(mut self, name: &str, vals: Vec<RVal>) -> TableBatch {
        assert_eq!(vals.len(), self.rows, "column {} length", name);
        self.cols.push(ColSpec {
            name: name.to_string(),
            vals,
            repr: Repr::Auto,
        });
        self
    }
    pub fn col_repr(mut self, name: &str, vals: Vec<RVal>, repr: Repr) -> TableBatch {
        assert_eq!(vals.len(), self.rows, "column {} length", name);
        self.cols.push(ColSpec {
            name: name.to_string(),
            vals,
            repr,
        });
        self
    }
}

impl Batch {
    pub fn one(t: TableBatch) -> Batch {
        Batch { tables: vec![t] }
    }
}

fn auto_repr(vals: &[RVal]) -> Repr {
    let mut ints = 0;
    let mut floats = 0;
    let mut strs = 0;
    let mut nulls = 0;
    for v in vals {
        match v {
            RVal::Null => nulls += 1,
            RVal::Int(_) => ints += 1,
            RVal::Float(_) => floats += 1,
            RVal::Str(_) => strs += 1,
        }
    }
    let n = vals.len();
    if nulls == n {
        Repr::Empty
    } else if ints == n {
        Repr::I64
    } else if floats == n {
        Repr::Dense
    } else if strs == n {
        Repr::Str
    } else if ints + nulls == n {
        Repr::SparseI64
    } else if floats + nulls == n {
        Repr::Sparse
    } else {
        Repr::Mixed
    }
}

/// Can `vals` be carried by `repr` without changing their meaning?
pub fn repr_applicable(vals: &[RVal], repr: Repr) -> bool {
    let all = |p: &dyn Fn(&RVal) -> bool| vals.iter().all(|v| p(v));
    match repr {
        Repr::Auto | Repr::Mixed => true,
        Repr::Dense => all(&|v| matches!(v, RVal::Float(_))),
        Repr::I64 => all(&|v| matches!(v, RVal::Int(_))),
        Repr::Str => all(&|v| matches!(v, RVal::Str(_))),
        Repr::Empty => all(&|v| v.is_null()),
        Repr::Sparse => all(&|v| matches!(v, RVal::Float(_) | RVal::Null)),
        Repr::SparseI64 => all(&|v| matches!(v, RVal::Int(_) | RVal::Null)),
        Repr::ShortDense => {
            // non-null prefix of one numeric type followed by nulls only, at least one null
            let k = vals.iter().take_while(|v| !v.is_null()).count();
            k > 0
                && k < vals.len()
                && vals[k..].iter().all(|v| v.is_null())
                && (vals[..k].iter().all(|v| matches!(v, RVal::Int(_)))
                    || vals[..k].iter().all(|v| matches!(v, RVal::Float(_))))
        }
    }
}

fn column_data(vals: &[RVal], repr: Repr) -> ColumnData {
    let repr = if repr == Repr::Auto { auto_repr(vals) } else { repr };
    match repr {
        Repr::Auto => unreachable!(),
        Repr::Dense => ColumnData::Dense(vals.iter().map(|v| v.f().unwrap()).collect()),
        Repr::I64 => ColumnData::I64(
            vals.iter()
                .map(|v| match v {
                    RVal::Int(i) => *i,
                    _ => panic!("I64 repr"),
                })
                .collect(),
        ),
        Repr::Str => ColumnData::String(
            vals.iter()
                .map(|v| match v {
                    RVal::Str(s) => s.clone(),
                    _ => panic!("Str repr"),
                })
                .collect(),
        ),
        Repr::Empty => ColumnData::Empty,
        Repr::Sparse => ColumnData::Sparse(
            vals.iter()
                .enumerate()
                .filter_map(|(i, v)| v.f().map(|f| (i as u64, f)))
                .collect(),
        ),
        Repr::SparseI64 => ColumnData::SparseI64(
            vals.iter()
                .enumerate()
                .filter_map(|(i, v)| match v {
                    RVal::Int(x) => Some((i as u64, *x)),
                    _ => None,
                })
                .collect(),
        ),
        Repr::Mixed => ColumnData::Mixed(vals.iter().map(|v| v.to_anyval()).collect()),
        Repr::ShortDense => {
            let k = vals.iter().take_while(|v| !v.is_null()).count();
            if matches!(vals[0], RVal::Int(_)) {
                ColumnData::I64(
                    vals[..k]
                        .iter()
                        .map(|v| match v {
                            RVal::Int(i) => *i,
                            _ => unreachable!(),
                        })
                        .collect(),
                )
            } else {
                ColumnData::Dense(vals[..k].iter().map(|v| v.f().unwrap()).collect())
            }
        }
    }
}

/// Path by which an `EventBuffer` is produced.
#[derive(Clone, Copy, Debug, PartialEq, Eq, Hash, Serialize, Deserialize, PartialOrd, Ord)]
pub enum IngestPath {
    /// `TableBuffer::new` from column vectors (only representations whose vector is full length)
    Native,
    /// capnp message built field by field, then `EventBuffer::deserialize` (what the server does)
    Wire,
    /// `TableBuffer::push_row_and_timestamp` row by row, then serialize + deserialize
    RowApi,
}

/// Build the message the way a client would and decode it the way the server does.
pub fn wire_bytes(batch: &Batch) -> Vec<u8> {
    let mut builder = capnp::message::Builder::new_default();
    {
        let list = builder.init_root::<wal_segment_capnp::table_segment_list::Builder>();
        let mut data = list.init_data(batch.tables.len() as u32);
        for (i, tb) in batch.tables.iter().enumerate() {
            let mut t = data.reborrow().get(i as u32);
            t.set_name(&tb.table[..]);
            t.set_len(tb.rows as u64);
            let mut cols = t.init_columns(tb.cols.len() as u32);
            for (j, c) in tb.cols.iter().enumerate() {
                let mut cb = cols.reborrow().get(j as u32);
                cb.set_name(&c.name[..]);
                match column_data(&c.vals, c.repr) {
                    ColumnData::Dense(xs) => cb.get_data().set_f64(&xs[..]).unwrap(),
                    ColumnData::I64(xs) => cb.get_data().set_i64(&xs[..]).unwrap(),
                    ColumnData::String(xs) => cb.get_data().set_string(&xs[..]).unwrap(),
                    ColumnData::Empty => cb.get_data().set_empty(()),
                    ColumnData::Sparse(xs) => {
                        let mut sb = cb.get_data().init_sparse_f64();
                        let (idx, vals): (Vec<u64>, Vec<f64>) = xs.into_iter().unzip();
                        sb.reborrow().set_indices(&idx[..]).unwrap();
                        sb.reborrow().set_values(&vals[..]).unwrap();
                    }
                    ColumnData::SparseI64(xs) => {
                        let mut sb = cb.get_data().init_sparse_i64();
                        let (idx, vals): (Vec<u64>, Vec<i64>) = xs.into_iter().unzip();
                        sb.reborrow().set_indices(&idx[..]).unwrap();
                        sb.reborrow().set_values(&vals[..]).unwrap();
                    }
                    ColumnData::Mixed(xs) => {
                        let mut mb = cb.get_data().init_mixed(xs.len() as u32);
                        for (k, v) in xs.iter().enumerate() {
                            let mut vb = mb.reborrow().get(k as u32).init_value();
                            match v {
                                AnyVal::Int(i) => vb.set_i64(*i),
                                AnyVal::Float(f) => vb.set_f64(*f),
                                AnyVal::Str(s) => vb.set_string(&s[..]),
                                AnyVal::Null => vb.set_null(()),
                            }
                        }
                    }
                }
            }
        }
    }
    let mut buf = Vec::new();
    capnp::serialize_packed::write_message(&mut buf, &builder).unwrap();
    buf
}

/// Whether `batch` can be expressed through `path` at all.
pub fn path_applicable(batch: &Batch, path: IngestPath) -> bool {
    match path {
        IngestPath::Wire => true,
        IngestPath::Native => batch.tables.iter().all(|t| {
            t.cols.iter().all(|c| {
                let r = if c.repr == Repr::Auto { auto_repr(&c.vals) } else { c.repr };
                matches!(r, Repr::Dense | Repr::I64 | Repr::Str | Repr::Mixed | Repr::Empty)
            }) && t.cols.iter().any(|c| {
                let r = if c.repr == Repr::Auto { auto_repr(&c.vals) } else { c.repr };
                r != Repr::Empty
            })
        }),
        IngestPath::RowApi => batch.tables.iter().all(|t| {
            t.cols.iter().any(|c| c.name == "timestamp")
                && t.cols.iter().all(|c| {
                    // strings must be dense, no int/float mixing inside a column, no mixed
                    let has_str = c.vals.iter().any(|v| matches!(v, RVal::Str(_)));
                    let has_num = c.vals.iter().any(|v| matches!(v, RVal::Int(_) | RVal::Float(_)));
                    let has_int = c.vals.iter().any(|v| matches!(v, RVal::Int(_)));
                    let has_float = c.vals.iter().any(|v| matches!(v, RVal::Float(_)));
                    let has_null = c.vals.iter().any(|v| v.is_null());
                    !(has_str && (has_num || has_null)) && !(has_int && has_float)
                })
        }),
    }
}

pub fn build_event_buffer(batch: &Batch, path: IngestPath) -> EventBuffer {
    match path {
        IngestPath::Wire => EventBuffer::deserialize(&wire_bytes(batch)).expect("wire decode"),
        IngestPath::Native => {
            let mut tables = HashMap::new();
            for tb in &batch.tables {
                let mut cols = HashMap::new();
                for c in &tb.cols {
                    cols.insert(
                        c.name.clone(),
                        ColumnBuffer {
                            data: column_data(&c.vals, c.repr),
                        },
                    );
                }
                tables.insert(tb.table.clone(), TableBuffer::new(cols));
            }
            EventBuffer { tables }
        }
        IngestPath::RowApi => {
            let mut eb = EventBuffer::default();
            for tb in &batch.tables {
                let t = eb.tables.entry(tb.table.clone()).or_default();
                for r in 0..tb.rows {
                    let row: Vec<(String, AnyVal)> = tb
                        .cols
                        .iter()
                        .filter(|c| !c.vals[r].is_null())
                        .map(|c| (c.name.clone(), c.vals[r].to_anyval()))
                        .collect();
                    t.push_row_and_timestamp(row);
                }
            }
            EventBuffer::deserialize(&eb.serialize()).expect("wire decode")
        }
    }
}

// ---------------------------------------------------------------------------------------------
// Reference database content
// ---------------------------------------------------------------------------------------------

#[derive(Clone, Debug, Default, PartialEq, Eq, Hash, Serialize, Deserialize)]
pub struct RefTable {
    /// all column names ever ingested
    pub columns: BTreeSet<String>,
    pub rows: Vec<BTreeMap<String, RVal>>,
    /// value kinds a column has received ('i','f','s')
    pub kinds: BTreeMap<String, BTreeSet<char>>,
}

#[derive(Clone, Debug, Default, PartialEq, Eq, Hash, Serialize, Deserialize)]
pub struct RefDb {
    pub tables: BTreeMap<String, RefTable>,
    /// order in which tables were created (user tables only)
    pub table_order: Vec<String>,
}

impl RefDb {
    pub fn apply(&mut self, batch: &Batch) {
        for tb in &batch.tables {
            if !self.tables.contains_key(&tb.table) {
                self.table_order.push(tb.table.clone());
            }
            let t = self.tables.entry(tb.table.clone()).or_default();
            for c in &tb.cols {
                t.columns.insert(c.name.clone());
            }
            for r in 0..tb.rows {
                let mut row = BTreeMap::new();
                for c in &tb.cols {
                    let v = &c.vals[r];
                    if !v.is_null() {
                        row.insert(c.name.clone(), v.clone());
                        let k = match v {
                            RVal::Int(_) => 'i',
                            RVal::Float(_) => 'f',
                            RVal::Str(_) => 's',
                            RVal::Null => unreachable!(),
                        };
                        t.kinds.entry(c.name.clone()).or_default().insert(k);
                    }
                }
                t.rows.push(row);
            }
        }
    }

    pub fn cell(&self, table: &str, row: usize, col: &str) -> RVal {
        self.tables[table].rows[row].get(col).cloned().unwrap_or(RVal::Null)
    }
}

/// Does `got` equal `want` exactly, or by LocustDB's documented coercion for a column that has
/// received the kinds in `kinds`?
pub fn cell_matches(want: &RVal, got: &RVal, kinds: Option<&BTreeSet<char>>) -> bool {
    if want == got {
        return true;
    }
    let has = |c: char| kinds.map(|k| k.contains(&c)).unwrap_or(false);
    match (want, got) {
        (RVal::Int(i), RVal::Float(g)) if has('f') => (*i as f64).to_bits() == *g,
        (RVal::Int(_), RVal::Str(g)) | (RVal::Float(_), RVal::Str(g)) if has('s') => {
            want.coerced_string().as_deref() == Some(g.as_str())
                // a column that went int -> float -> string prints the int as float
                || match want {
                    RVal::Int(i) if has('f') => (*i as f64).to_string() == *g,
                    _ => false,
                }
        }
        _ => false,
    }
}

// ---------------------------------------------------------------------------------------------
// Panic capture
// ---------------------------------------------------------------------------------------------

#[derive(Clone, Debug, Serialize, Deserialize)]
pub struct PanicRec {
    pub thread: String,
    pub location: String,
    pub message: String,
}

lazy_static::lazy_static! {
    static ref PANICS: Mutex<Vec<PanicRec>> = Mutex::new(Vec::new());
}

pub fn install_panic_hook() {
    std::panic::set_hook(Box::new(|info| {
        let thread = std::thread::current().name().unwrap_or("<unnamed>").to_string();
        let location = info
            .location()
            .map(|l| format!("{}:{}", l.file(), l.line()))
            .unwrap_or_default();
        let message = if let Some(s) = info.payload().downcast_ref::<&str>() {
            s.to_string()
        } else if let Some(s) = info.payload().downcast_ref::<String>() {
            s.clone()
        } else {
            "<non-string panic>".to_string()
        };
        let mut message = message;
        if message.len() > 300 {
            let mut cut = 300;
            while !message.is_char_boundary(cut) {
                cut -= 1;
            }
            message.truncate(cut);
        }
        if std::env::var("LVMC_SHOW_PANICS").is_ok() {
            eprintln!("[panic] {} @ {}: {}", thread, location, message);
        }
        PANICS.lock().unwrap_or_else(|e| e.into_inner()).push(PanicRec {
            thread,
            location,
            message,
        });
    }));
}

pub fn take_panics() -> Vec<PanicRec> {
    std::mem::take(&mut *PANICS.lock().unwrap_or_else(|e| e.into_inner()))
}

/// Short stable description of a panic site: source file with the /repo prefix and the line
/// number stripped (stable under unrelated edits of the file).
pub fn panic_site(p: &PanicRec) -> String {
    let loc = p.location.trim_start_matches("/repo/");
    loc.rsplit_once(':').map(|x| x.0).unwrap_or(loc).to_string()
}

// ---------------------------------------------------------------------------------------------
// Database driver
// ---------------------------------------------------------------------------------------------

#[derive(Clone, Debug, Serialize, Deserialize, PartialEq, Eq, Hash)]
pub struct DbOpts {
    pub on_disk: bool,
    pub threads: usize,
    pub partition_combine_factor: u64,
    pub max_partition_size_bytes: u64,
    pub mem_lz4: bool,
    pub batch_size: usize,
    pub io_threads: usize,
    pub wal_flush_compaction_threads: usize,
    pub max_wal_files: usize,
    pub max_wal_size_bytes: u64,
}

impl Default for DbOpts {
    fn default() -> DbOpts {
        DbOpts {
            on_disk: true,
            threads: 1,
            partition_combine_factor: 4,
            max_partition_size_bytes: 8 * 1024 * 1024,
            mem_lz4: true,
            batch_size: 1024,
            io_threads: 1,
            wal_flush_compaction_threads: 1,
            max_wal_files: 1_000_000,
            max_wal_size_bytes: 1 << 40,
        }
    }
}

impl DbOpts {
    pub fn to_options(&self, dir: Option<&Path>) -> Options {
        Options {
            threads: self.threads,
            read_threads: 1,
            db_path: if self.on_disk { dir.map(|d| d.to_path_buf()) } else { None },
            mem_lz4: self.mem_lz4,
            max_wal_size_bytes: self.max_wal_size_bytes,
            max_wal_files: self.max_wal_files,
            max_partition_size_bytes: self.max_partition_size_bytes,
            partition_combine_factor: self.partition_combine_factor,
            batch_size: self.batch_size,
            wal_flush_compaction_threads: self.wal_flush_compaction_threads,
            io_threads: self.io_threads,
            metrics_table_name: None,
            ..Options::default()
        }
    }
}

/// Result of one call against the database.
#[derive(Clone, Debug, PartialEq)]
pub enum Outcome<T> {
    Ok(T),
    /// the call itself panicked (message)
    Panic(String),
    /// the call did not return before its deadline
    Hang,
}

impl<T> Outcome<T> {
    pub fn ok(self) -> Option<T> {
        match self {
            Outcome::Ok(t) => Some(t),
            _ => None,
        }
    }
    pub fn describe(&self) -> String {
        match self {
            Outcome::Ok(_) => "ok".into(),
            Outcome::Panic(m) => format!("panic in caller: {}", m),
            Outcome::Hang => "did not return before deadline".into(),
        }
    }
}

#[derive(Clone, Debug, PartialEq, Serialize, Deserialize)]
pub struct QOut {
    pub colnames: Vec<String>,
    /// row view (None if not requested)
    pub rows: Vec<Vec<RVal>>,
    /// column view
    pub cols: Vec<(String, Vec<RVal>)>,
    /// raw column view variant names (Int/Float/String/Null/Mixed)
    pub col_kinds: Vec<String>,
}

pub type QRes = Result<QOut, (String, String)>; // Err((kind, message))

pub fn err_kind(e: &QueryError) -> (String, String) {
    let kind = match e {
        QueryError::SytaxErrorCharsRemaining(_) | QueryError::SyntaxErrorBytesRemaining(_) => "Syntax",
        QueryError::ParseError(_) => "ParseError",
        QueryError::FatalError(..) => "Fatal",
        QueryError::NotImplemented(_) => "NotImplemented",
        QueryError::TypeError(_) => "TypeError",
        QueryError::Overflow => "Overflow",
        QueryError::Canceled { .. } => "Canceled",
    };
    let mut msg = format!("{}", e);
    if msg.len() > 200 {
        let mut cut = 200;
        while !msg.is_char_boundary(cut) {
            cut -= 1;
        }
        msg.truncate(cut);
    }
    (kind.to_string(), msg)
}

pub fn normalize_output(o: &QueryOutput) -> QOut {
    let rows = o
        .rows
        .as_ref()
        .map(|rs| rs.iter().map(|r| r.iter().map(RVal::from_raw).collect()).collect())
        .unwrap_or_default();
    let mut cols = vec![];
    let mut kinds = vec![];
    for (name, c) in &o.columns {
        let (k, v): (&str, Vec<RVal>) = match c {
            BasicTypeColumn::Int(xs) => ("Int", xs.iter().map(|x| RVal::Int(*x)).collect()),
            BasicTypeColumn::Float(xs) => ("Float", xs.iter().map(|x| RVal::Float(x.to_bits())).collect()),
            BasicTypeColumn::String(xs) => ("String", xs.iter().map(|x| RVal::Str(x.clone())).collect()),
            BasicTypeColumn::Null(n) => ("Null", vec![RVal::Null; *n]),
            BasicTypeColumn::Mixed(xs) => ("Mixed", xs.iter().map(RVal::from_raw).collect()),
        };
        cols.push((name.clone(), v));
        kinds.push(k.to_string());
    }
    QOut {
        colnames: o.colnames.clone(),
        rows,
        cols,
        col_kinds: kinds,
    }
}

type Slots = HashMap<u64, LocustDB>;
type Job = Box<dyn FnOnce(&mut Slots, &tokio::runtime::Runtime) + Send + 'static>;

/// A database driven through a shared executor thread, so that every call can be given a
/// deadline. (One executor thread per process, replaced only after a call hung on it: thread
/// creation is the scarce resource on the verification machine.)
pub struct Db {
    tx: Option<mpsc::Sender<Job>>,
    id: u64,
    pub dir: Option<PathBuf>,
    pub opts: DbOpts,
    pub dead: bool,
    pub deadline: Duration,
}

static DIR_COUNTER: AtomicU64 = AtomicU64::new(0);
static DB_COUNTER: AtomicU64 = AtomicU64::new(0);

lazy_static::lazy_static! {
    static ref EXEC: Mutex<Option<mpsc::Sender<Job>>> = Mutex::new(None);
}

fn executor() -> mpsc::Sender<Job> {
    let mut g = EXEC.lock().unwrap();
    if let Some(tx) = g.as_ref() {
        return tx.clone();
    }
    let (tx, rx) = mpsc::channel::<Job>();
    std::thread::Builder::new()
        .name("lvmc-exec".into())
        .spawn(move || {
            let rt = tokio::runtime::Builder::new_current_thread().enable_all().build().unwrap();
            let mut slots: Slots = HashMap::new();
            while let Ok(job) = rx.recv() {
                job(&mut slots, &rt);
            }
        })
        .unwrap();
    *g = Some(tx.clone());
    tx
}

fn retire_executor() {
    *EXEC.lock().unwrap() = None;
}

pub fn scratch_root() -> PathBuf {
    let base = if let Ok(p) = std::env::var("LVMC_SCRATCH") {
        PathBuf::from(p)
    } else if Path::new("/dev/shm").is_dir() {
        PathBuf::from("/dev/shm")
    } else {
        std::env::temp_dir()
    };
    base.join(format!("lvmc-{}", std::process::id()))
}

pub fn fresh_dir() -> PathBuf {
    let n = DIR_COUNTER.fetch_add(1, Ordering::SeqCst);
    let d = scratch_root().join(format!("d{}", n));
    let _ = std::fs::remove_dir_all(&d);
    std::fs::create_dir_all(&d).unwrap();
    d
}

pub fn cleanup_scratch() {
    let _ = std::fs::remove_dir_all(scratch_root());
}

impl Db {
    /// Opens a database on `dir` (created fresh when None and opts.on_disk).
    pub fn open(opts: &DbOpts, dir: Option<PathBuf>) -> (Db, Outcome<()>) {
        let ms = std::env::var("LVMC_DEADLINE_MS").ok().and_then(|s| s.parse().ok()).unwrap_or(10000);
        Db::open_with_deadline(opts, dir, Duration::from_millis(ms))
    }

    pub fn open_with_deadline(opts: &DbOpts, dir: Option<PathBuf>, deadline: Duration) -> (Db, Outcome<()>) {
        let dir = if opts.on_disk { Some(dir.unwrap_or_else(fresh_dir)) } else { None };
        let id = DB_COUNTER.fetch_add(1, Ordering::SeqCst);
        let mut db = Db {
            tx: Some(executor()),
            id,
            dir: dir.clone(),
            opts: opts.clone(),
            dead: false,
            deadline,
        };
        let options = opts.to_options(dir.as_deref());
        let r = db.call_raw(move |slots, _rt| {
            slots.insert(id, LocustDB::new(&options));
        });
        (db, r)
    }

    fn call_raw<T: Send + 'static>(
        &mut self,
        f: impl FnOnce(&mut Slots, &tokio::runtime::Runtime) -> T + Send + 'static,
    ) -> Outcome<T> {
        if self.dead {
            return Outcome::Hang;
        }
        let (rtx, rrx) = mpsc::channel();
        let job: Job = Box::new(move |slot, rt| {
            let r = catch_unwind(AssertUnwindSafe(|| f(slot, rt)));
            let _ = rtx.send(r.map_err(|e| {
                if let Some(s) = e.downcast_ref::<&str>() {
                    s.to_string()
                } else if let Some(s) = e.downcast_ref::<String>() {
                    s.clone()
                } else {
                    "<panic>".to_string()
                }
            }));
        });
        if self.tx.as_ref().unwrap().send(job).is_err() {
            self.dead = true;
            retire_executor();
            return Outcome::Hang;
        }
        match rrx.recv_timeout(self.deadline) {
            Ok(Ok(t)) => Outcome::Ok(t),
            Ok(Err(msg)) => Outcome::Panic(msg),
            Err(_) => {
                // the executor thread is stuck inside the database: abandon it
                self.dead = true;
                retire_executor();
                // a stuck database may spin; do not let it starve the following cases on this CPU
                crate::runner::unpin_cpu();
                Outcome::Hang
            }
        }
    }

    pub fn call<T: Send + 'static>(
        &mut self,
        f: impl FnOnce(&LocustDB, &tokio::runtime::Runtime) -> T + Send + 'static,
    ) -> Outcome<T> {
        let id = self.id;
        self.call_raw(move |slots, rt| f(slots.get(&id).expect("database not open"), rt))
    }

    pub fn ingest(&mut self, eb: EventBuffer) -> Outcome<()> {
        self.call(move |db, rt| rt.block_on(db.ingest_efficient(eb)))
    }

    pub fn ingest_batch(&mut self, b: &Batch, path: IngestPath) -> Outcome<()> {
        let eb = build_event_buffer(b, path);
        self.ingest(eb)
    }

    pub fn query(&mut self, q: &str) -> Outcome<QRes> {
        let q = q.to_string();
        self.call(move |db, rt| {
            let explain = std::env::var("LVMC_EXPLAIN").is_ok();
            let r = rt.block_on(db.run_query(&q, explain, true, vec![]));
            match r {
                Ok(o) => {
                    if explain {
                        for (p, n) in &o.query_plans {
                            eprintln!("[plan x{}]\n{}", n, p);
                        }
                    }
                    Ok(normalize_output(&o))
                }
                Err(e) => Err(err_kind(&e)),
            }
        })
    }

    pub fn flush(&mut self) -> Outcome<()> {
        self.call(|db, _| db.force_flush())
    }

    pub fn evict(&mut self) -> Outcome<usize> {
        self.call(|db, _| db.evict_cache())
    }

    /// Drop the LocustDB instance (clean shutdown). The executor thread stays for reopen.
    pub fn close(&mut self) -> Outcome<()> {
        let id = self.id;
        self.call_raw(move |slots, _| {
            slots.remove(&id);
        })
    }

    /// Clean restart on the same directory.
    pub fn restart(&mut self) -> Outcome<()> {
        match self.close() {
            Outcome::Ok(()) => {}
            other => return other,
        }
        let options = self.opts.to_options(self.dir.as_deref());
        let id = self.id;
        self.call_raw(move |slots, _rt| {
            slots.insert(id, LocustDB::new(&options));
        })
    }

    pub fn restart_with(&mut self, opts: &DbOpts) -> Outcome<()> {
        self.opts = opts.clone();
        self.restart()
    }

    /// Close, and remove the directory unless `keep`.
    pub fn destroy(mut self) {
        if !self.dead {
            let _ = self.close();
        }
        self.tx = None;
        if let Some(d) = &self.dir {
            let _ = std::fs::remove_dir_all(d);
        }
    }
}

// ---------------------------------------------------------------------------------------------
// File listing
// ---------------------------------------------------------------------------------------------

pub fn list_files(dir: &Path) -> Vec<(String, u64)> {
    fn rec(base: &Path, d: &Path, out: &mut Vec<(String, u64)>) {
        if let Ok(rd) = std::fs::read_dir(d) {
            for e in rd.flatten() {
                let p = e.path();
                if p.is_dir() {
                    rec(base, &p, out);
                } else {
                    let rel = p.strip_prefix(base).unwrap().to_string_lossy().to_string();
                    let len = e.metadata().map(|m| m.len()).unwrap_or(0);
                    out.push((rel, len));
                }
            }
        }
    }
    let mut out = vec![];
    rec(dir, dir, &mut out);
    out.sort();
    out
}

pub fn read_tree(dir: &Path) -> BTreeMap<String, Vec<u8>> {
    let mut m = BTreeMap::new();
    for (rel, _) in list_files(dir) {
        if let Ok(data) = std::fs::read(dir.join(&rel)) {
            m.insert(rel, data);
        }
    }
    m
}

pub fn write_tree(dir: &Path, tree: &BTreeMap<String, Vec<u8>>) {
    for (rel, data) in tree {
        let p = dir.join(rel);
        if let Some(parent) = p.parent() {
            std::fs::create_dir_all(parent).unwrap();
        }
        std::fs::write(p, data).unwrap();
    }
}

pub fn hash64(s: &[u8]) -> u64 {
    use sha2::{Digest, Sha256};
    let mut h = Sha256::new();
    h.update(s);
    let d = h.finalize();
    u64::from_be_bytes([d[0], d[1], d[2], d[3], d[4], d[5], d[6], d[7]])
}

pub fn arc_str(s: &str) -> Arc<str> {
    Arc::from(s)
}

// ---------------------------------------------------------------------------------------------
// Flush activity counters (through the sync-point hook)
// ---------------------------------------------------------------------------------------------

pub static FLUSH_BEGUN: AtomicU64 = AtomicU64::new(0);
pub static FLUSH_ENDED: AtomicU64 = AtomicU64::new(0);

/// Registers a sync-point callback that only counts flush begin / end.
pub fn install_flush_counter() {
    locustdb::verif::set_gate(Some(Arc::new(|label: &str, _detail: &str| match label {
        "wal_flush:begin" => {
            FLUSH_BEGUN.fetch_add(1, Ordering::SeqCst);
        }
        "wal_flush:end" => {
            FLUSH_ENDED.fetch_add(1, Ordering::SeqCst);
        }
        _ => {}
    })));
}

impl Db {
    /// Wait until no flush is running and none is due (background-flush configurations).
    pub fn settle(&mut self) -> Outcome<()> {
        let start = std::time::Instant::now();
        let max_files = self.opts.max_wal_files as u64;
        let max_bytes = self.opts.max_wal_size_bytes;
        let mut quiet = 0;
        loop {
            let due = self.call(move |db, _| {
                let inner = db.verif_inner();
                let files = inner
                    .verif_storage()
                    .map(|s| {
                        let r = s.unflushed_wal_ids();
                        r.end - r.start
                    })
                    .unwrap_or(0);
                inner.verif_wal_size() > max_bytes || files > max_files
            });
            let due = match due {
                Outcome::Ok(d) => d,
                Outcome::Panic(m) => return Outcome::Panic(m),
                Outcome::Hang => return Outcome::Hang,
            };
            let running = FLUSH_BEGUN.load(Ordering::SeqCst) != FLUSH_ENDED.load(Ordering::SeqCst);
            if !due && !running {
                quiet += 1;
                if quiet >= 2 {
                    return Outcome::Ok(());
                }
            } else {
                quiet = 0;
            }
            if start.elapsed() > Duration::from_secs(8) {
                return Outcome::Hang;
            }
            std::thread::sleep(Duration::from_millis(5));
        }
    }
}
