//! E-gate: real database threads, one released at a time at named sync points.
//! Actors (flush F, query Q, ingestion I) park at the gates compiled into the database under
//! cfg(locustdb_verif); the controller enumerates, depth first with replay, every schedule
//! "run actor X to its next gate" up to a bound on context switches. Serves C10 (and C11 with
//! failing requests as Q).
use std::collections::{BTreeMap, BTreeSet};
use std::sync::atomic::{AtomicBool, Ordering};
use std::sync::{Arc, Condvar, Mutex};
use std::time::{Duration, Instant};

use locustdb::LocustDB;
use serde::{Deserialize, Serialize};
use serde_json::{json, Value};

use crate::common::*;
use crate::runner::*;

pub const F: usize = 0;
pub const Q: usize = 1;
pub const I: usize = 2;
pub const E: usize = 3;
const NAMES: [&str; 4] = ["F", "Q", "I", "E"];

fn classify(label: &str) -> Option<usize> {
    if label.starts_with("wal_flush:") || label.starts_with("flush_table:") || label.starts_with("compact:") || label.starts_with("persist_partitions:") {
        Some(F)
    } else if label.starts_with("query:") || label.starts_with("load:") {
        Some(Q)
    } else if label.starts_with("ingest:") {
        Some(I)
    } else {
        None
    }
}

#[derive(Default)]
struct CtlState {
    enabled: bool,
    /// actor -> gate label it is parked at
    parked: BTreeMap<usize, String>,
    permits: [u64; 4],
    done: [bool; 4],
    started: [bool; 4],
    /// controlled actors (others pass through gates)
    controlled: [bool; 4],
    trace: Vec<String>,
}

pub struct Ctl {
    st: Mutex<CtlState>,
    cv: Condvar,
}

lazy_static::lazy_static! {
    static ref F_THREADS: Mutex<std::collections::HashSet<std::thread::ThreadId>> = Mutex::new(std::collections::HashSet::new());
    static ref CTL: Arc<Ctl> = Arc::new(Ctl { st: Mutex::new(CtlState::default()), cv: Condvar::new() });
}

pub fn install_gate_controller() {
    let ctl = CTL.clone();
    locustdb::verif::set_gate(Some(Arc::new(move |label: &str, detail: &str| {
        match label {
            "wal_flush:begin" => {
                FLUSH_BEGUN.fetch_add(1, Ordering::SeqCst);
            }
            "wal_flush:end" => {
                FLUSH_ENDED.fetch_add(1, Ordering::SeqCst);
            }
            _ => {}
        }
        let actor = match classify(label) {
            Some(a) => a,
            None => return,
        };
        // queries on catalogue tables (issued by SELECT * and by compaction) are not actor Q's work
        if actor == Q && detail != "t" {
            return;
        }
        // column loads performed by the compaction run on a flush thread: they belong to actor F
        let tid = std::thread::current().id();
        let actor = {
            let mut ft = F_THREADS.lock().unwrap();
            if actor == F {
                ft.insert(tid);
                // per-table steps of other tables (catalogue tables, u) are not decision points
                if !detail.is_empty() && detail != "t" {
                    return;
                }
                F
            } else if actor == Q && ft.contains(&tid) {
                F
            } else {
                actor
            }
        };
        let mut st = ctl.st.lock().unwrap();
        if !st.enabled || !st.controlled[actor] {
            return;
        }
        let full = if detail.is_empty() { label.to_string() } else { format!("{}({})", label, detail) };
        st.trace.push(format!("{}@{}", NAMES[actor], full));
        st.parked.insert(actor, full);
        ctl.cv.notify_all();
        while st.enabled && st.permits[actor] == 0 {
            st = ctl.cv.wait(st).unwrap();
        }
        if st.permits[actor] > 0 {
            st.permits[actor] -= 1;
        }
        st.parked.remove(&actor);
        ctl.cv.notify_all();
    })));
}

fn ctl_reset(controlled: [bool; 4]) {
    let mut st = CTL.st.lock().unwrap();
    *st = CtlState::default();
    st.enabled = true;
    st.controlled = controlled;
}

fn ctl_disable() {
    let mut st = CTL.st.lock().unwrap();
    st.enabled = false;
    CTL.cv.notify_all();
}

#[derive(Clone, Debug, PartialEq)]
pub enum StepResult {
    Parked(String),
    Done,
    /// did not reach a gate or finish in time: blocked by a parked actor or hung
    Blocked,
}

/// Release `actor` (it must be parked or just started) and wait until it parks again or finishes.
fn step(actor: usize, patience: Duration) -> StepResult {
    let mut st = CTL.st.lock().unwrap();
    if st.parked.contains_key(&actor) {
        st.permits[actor] += 1;
        CTL.cv.notify_all();
        // wait until it has left the gate
        let t0 = Instant::now();
        while st.parked.contains_key(&actor) && st.permits[actor] > 0 && t0.elapsed() < patience {
            let (g, _) = CTL.cv.wait_timeout(st, Duration::from_millis(20)).unwrap();
            st = g;
        }
    }
    let t0 = Instant::now();
    loop {
        if st.done[actor] {
            return StepResult::Done;
        }
        if let Some(l) = st.parked.get(&actor) {
            if st.permits[actor] == 0 {
                return StepResult::Parked(l.clone());
            }
        }
        if t0.elapsed() >= patience {
            return StepResult::Blocked;
        }
        let (g, _) = CTL.cv.wait_timeout(st, Duration::from_millis(10)).unwrap();
        st = g;
    }
}

fn mark_done(actor: usize) {
    let mut st = CTL.st.lock().unwrap();
    st.done[actor] = true;
    CTL.cv.notify_all();
}

// ---------------------------------------------------------------------------------------------
// Scenario
// ---------------------------------------------------------------------------------------------

#[derive(Clone, Debug, Serialize, Deserialize, PartialEq, Eq, Hash)]
pub struct Scenario {
    /// query text run by actor Q
    pub query: String,
    /// restart + evict before the race so that flushed columns are read from disk
    pub cold: bool,
    /// actor I present?
    pub with_ingest: bool,
    pub factor: u64,
    /// after the race: clean restart and every acknowledged row must be there exactly once (C08)
    #[serde(default)]
    pub restart_check: bool,
    /// leave out actor Q (restart scenarios only need flush x ingestion)
    #[serde(default)]
    pub no_query: bool,
    /// actor E: evict_cache() as one atomic step that can be placed at any decision point
    #[serde(default)]
    pub with_evict: bool,
}

#[derive(Clone, Debug, Serialize, Deserialize)]
pub struct GateCase {
    pub scenario: Scenario,
    /// actor to run at each decision point
    pub schedule: Vec<usize>,
    /// signature observed (the order of tables inside a flush follows HashMap iteration, so a
    /// replay re-explores the scenario until this signature shows up again)
    #[serde(default)]
    pub expect: String,
}

fn batch1() -> Batch {
    Batch {
        tables: vec![
            TableBatch::new("t", 3).col("id", vec![ri(1), ri(2), ri(3)]).col("x", vec![ri(101), ri(102), ri(103)]).col("s", vec![rs("a"), rs("b"), rs("a")]),
            TableBatch::new("u", 1).col("k", vec![ri(7)]),
        ],
    }
}
fn batch2() -> Batch {
    Batch::one(TableBatch::new("t", 3).col("id", vec![ri(11), ri(12), ri(13)]).col("y", vec![rf(0.5), rf(1.5), rf(2.5)]))
}
/// The concurrent request: two rows for t and, in the same request, the first rows of a table that does not exist yet.
fn batch3() -> Batch {
    Batch {
        tables: vec![
            TableBatch::new("t", 2).col("id", vec![ri(21), ri(22)]).col("x", vec![ri(121), ri(122)]),
            TableBatch::new("fresh", 2).col("id", vec![ri(31), ri(32)]),
        ],
    }
}

/// Quiescent check of the table created by the concurrent request.
fn check_fresh(db: &LocustDB, rt: &tokio::runtime::Runtime, when: &str) -> Option<(String, String)> {
    match rt.block_on(db.run_query("SELECT id FROM fresh", false, true, vec![])) {
        Ok(o) => {
            let got: Vec<RVal> = o.rows.unwrap_or_default().into_iter().map(|r| RVal::from_raw(&r[0])).collect();
            if got != vec![ri(31), ri(32)] {
                let kind = if got.len() < 2 { "rows-lost" } else if got.len() > 2 { "rows-duplicated" } else { "rows-differ" };
                return Some((format!("{}:new-table:{}", when, kind), format!("the concurrent request also created table fresh with ids [31, 32]; {} SELECT id FROM fresh returns {:?}", when, got)));
            }
            None
        }
        Err(e) => Some((format!("{}:new-table:query-failed:{}", when, err_kind(&e).0), format!("the concurrent request also created table fresh; {} SELECT id FROM fresh fails: {}", when, e))),
    }
}

pub struct RunObs {
    /// decision points: (enabled actors, chosen actor)
    pub points: Vec<(Vec<usize>, usize)>,
    pub trace: Vec<String>,
    pub violation: Option<(String, String)>,
    pub outcome: String,
}

fn db_options(factor: u64, dir: &std::path::Path) -> locustdb::Options {
    // one worker: the partitions of a query are processed one after the other, so actor Q is a single thread at a time
    let mut o = DbOpts { partition_combine_factor: factor, threads: 1, ..DbOpts::default() }.to_options(Some(dir));
    o.read_threads = 4;
    o
}

/// Executes one schedule. Choices beyond `schedule` follow the default policy (keep running the
/// current actor, else the lowest enabled actor).
pub fn run_schedule(sc: &Scenario, schedule: &[usize]) -> RunObs {
    let _ = take_panics();
    let dir = fresh_dir();
    let opts = db_options(sc.factor, &dir);
    let rt = tokio::runtime::Builder::new_current_thread().enable_all().build().unwrap();
    ctl_reset([false, false, false, false]); // setup runs uncontrolled
    let mut db = Arc::new(LocustDB::new(&opts));
    let mut obs = RunObs { points: vec![], trace: vec![], violation: None, outcome: String::new() };
    let mut acked = RefDb::default();
    rt.block_on(db.ingest_efficient(build_event_buffer(&batch1(), IngestPath::Wire)));
    acked.apply(&batch1());
    db.force_flush();
    if sc.cold {
        drop(db);
        db = Arc::new(LocustDB::new(&opts));
        db.evict_cache();
    }
    rt.block_on(db.ingest_efficient(build_event_buffer(&batch2(), IngestPath::Wire)));
    acked.apply(&batch2());
    let setup_panics = take_panics();
    if !setup_panics.is_empty() {
        obs.violation = Some((format!("setup-panic:{}", panic_site(&setup_panics[0])), format!("{:?}", setup_panics)));
        let _ = std::fs::remove_dir_all(&dir);
        return obs;
    }

    // ---- the race
    ctl_reset([true, !sc.no_query, sc.with_ingest, false]);
    let q_result: Arc<Mutex<Option<Result<QOut, (String, String)>>>> = Arc::new(Mutex::new(None));
    let i_started = Arc::new(AtomicBool::new(false));
    let i_done_before_q_start = Arc::new(AtomicBool::new(false));
    let q_started = Arc::new(AtomicBool::new(false));
    let mut handles: Vec<Option<std::thread::JoinHandle<()>>> = vec![None, None, None, None];
    let mut actors: Vec<usize> = match (sc.no_query, sc.with_ingest) {
        (false, true) => vec![F, Q, I],
        (false, false) => vec![F, Q],
        (true, true) => vec![F, I],
        (true, false) => vec![F],
    };
    if sc.with_evict {
        actors.push(E);
    }
    let start_actor = |a: usize, handles: &mut Vec<Option<std::thread::JoinHandle<()>>>| {
        {
            let mut st = CTL.st.lock().unwrap();
            st.started[a] = true;
        }
        let db = db.clone();
        let h = match a {
            F => std::thread::spawn(move || {
                let r = std::panic::catch_unwind(std::panic::AssertUnwindSafe(|| db.force_flush()));
                let _ = r;
                mark_done(F);
            }),
            Q => {
                let qr = q_result.clone();
                let sql = sc.query.clone();
                let qs = q_started.clone();
                let idone = i_done_before_q_start.clone();
                let istarted_done = {
                    let st = CTL.st.lock().unwrap();
                    st.done[I]
                };
                std::thread::spawn(move || {
                    if istarted_done {
                        idone.store(true, Ordering::SeqCst);
                    }
                    qs.store(true, Ordering::SeqCst);
                    let rt = tokio::runtime::Builder::new_current_thread().enable_all().build().unwrap();
                    let r = std::panic::catch_unwind(std::panic::AssertUnwindSafe(|| rt.block_on(db.run_query(&sql, false, true, vec![]))));
                    let v = match r {
                        Ok(Ok(o)) => Ok(normalize_output(&o)),
                        Ok(Err(e)) => Err(err_kind(&e)),
                        Err(_) => Err(("CallerPanic".to_string(), "run_query panicked in the caller".to_string())),
                    };
                    *qr.lock().unwrap() = Some(v);
                    mark_done(Q);
                })
            }
            E => std::thread::spawn(move || {
                let _ = std::panic::catch_unwind(std::panic::AssertUnwindSafe(|| db.evict_cache()));
                mark_done(E);
            }),
            _ => {
                let is = i_started.clone();
                std::thread::spawn(move || {
                    is.store(true, Ordering::SeqCst);
                    let rt = tokio::runtime::Builder::new_current_thread().enable_all().build().unwrap();
                    let r = std::panic::catch_unwind(std::panic::AssertUnwindSafe(|| rt.block_on(db.ingest_efficient(build_event_buffer(&batch3(), IngestPath::Wire)))));
                    let _ = r;
                    mark_done(I);
                })
            }
        };
        handles[a] = Some(h);
    };

    let patience = Duration::from_millis(std::env::var("LVMC_GATE_PATIENCE_MS").ok().and_then(|s| s.parse().ok()).unwrap_or(250));
    let deadline = Instant::now() + Duration::from_secs(20);
    let mut current: Option<usize> = None;
    let mut background: BTreeSet<usize> = BTreeSet::new(); // running without having arrived (blocked or slow)
    let mut k = 0usize;
    let mut last_gate: [String; 4] = [String::new(), String::new(), String::new(), String::new()];
    loop {
        // enabled = not done, and (not started, or parked)
        let (enabled, all_done) = {
            let st = CTL.st.lock().unwrap();
            let mut e = vec![];
            for a in &actors {
                if st.done[*a] {
                    continue;
                }
                if !st.started[*a] || (st.parked.contains_key(a) && st.permits[*a] == 0) {
                    e.push(*a);
                }
            }
            (e, actors.iter().all(|a| st.done[*a]))
        };
        if all_done {
            break;
        }
        if Instant::now() > deadline {
            let st = CTL.st.lock().unwrap();
            let stuck: Vec<String> = actors.iter().filter(|a| !st.done[**a]).map(|a| format!("{}@{}", NAMES[*a], st.parked.get(a).cloned().unwrap_or_else(|| format!("after {}", last_gate[*a])))).collect();
            drop(st);
            let panics = take_panics();
            obs.violation = Some((
                format!("no-completion:{}:{}", actors.iter().filter(|a| !CTL.st.lock().unwrap().done[**a]).map(|a| NAMES[*a]).collect::<Vec<_>>().join("+"), panics.first().map(panic_site).unwrap_or_default()),
                format!("actors did not complete within the deadline: {:?}; database panics: {:?}", stuck, panics.iter().map(|p| format!("{} {}", panic_site(p), p.message)).collect::<Vec<_>>()),
            ));
            break;
        }
        if enabled.is_empty() {
            // everyone is running in the background: wait for an arrival
            let st = CTL.st.lock().unwrap();
            let _ = CTL.cv.wait_timeout(st, Duration::from_millis(20)).unwrap();
            continue;
        }
        // choose
        let default = match current {
            Some(c) if enabled.contains(&c) => c,
            _ => enabled[0],
        };
        let chosen = match schedule.get(k) {
            Some(c) if enabled.contains(c) => *c,
            _ => default,
        };
        obs.points.push((enabled.clone(), chosen));
        k += 1;
        let started = CTL.st.lock().unwrap().started[chosen];
        if !started {
            start_actor(chosen, &mut handles);
        }
        background.remove(&chosen);
        match step(chosen, patience) {
            StepResult::Parked(l) => {
                last_gate[chosen] = l;
                current = Some(chosen);
            }
            StepResult::Done => {
                current = None;
            }
            StepResult::Blocked => {
                background.insert(chosen);
                current = None;
            }
        }
    }
    ctl_disable();
    // give stuck threads a moment, never join a hung one
    for (a, h) in handles.into_iter().enumerate() {
        if let Some(h) = h {
            if CTL.st.lock().unwrap().done[a] {
                let _ = h.join();
            }
        }
    }
    obs.trace = CTL.st.lock().unwrap().trace.clone();
    let panics = take_panics();

    // ---- oracle
    if obs.violation.is_none() {
        let mut with_b3 = acked.clone();
        with_b3.apply(&batch3());
        let qr = q_result.lock().unwrap().clone();
        match qr {
            None if sc.no_query => {}
            None => obs.violation = Some(("query-no-result".into(), "query actor finished without a result".into())),
            Some(Err((kind, msg))) => {
                // which maintenance the scenario has besides the flush: a recorded finding names its
                // scenario class, the same failure in another class is a different signature
                let ctx = format!("{}{}", if sc.with_evict { "+E" } else { "" }, if sc.cold { "+cold" } else { "" });
                obs.violation = Some((
                    format!("query-failed:{}:{}:{}:{}", kind, crate::c03::norm_msg(&msg), panics.first().map(panic_site).unwrap_or_default(), ctx),
                    format!("{} failed during concurrent activity: {}: {}; database panics {:?}", sc.query, kind, msg, panics.iter().map(|p| format!("{} {}", panic_site(p), p.message)).collect::<Vec<_>>()),
                ))
            }
            Some(Ok(out)) => {
                // allowed contents: acknowledged before the query started, optionally + the concurrent ingestion
                let mut allowed: Vec<&RefDb> = vec![];
                if !(sc.with_ingest && i_done_before_q_start.load(Ordering::SeqCst)) {
                    allowed.push(&acked);
                }
                if sc.with_ingest && i_started.load(Ordering::SeqCst) {
                    allowed.push(&with_b3);
                }
                let mut why = vec![];
                let mut ok = false;
                for r in &allowed {
                    match check_answer(&sc.query, &out, r) {
                        None => {
                            ok = true;
                            break;
                        }
                        Some(w) => why.push(w),
                    }
                }
                if !ok {
                    let kind = why.first().map(|w| w.0.clone()).unwrap_or_default();
                    obs.violation = Some((format!("query-not-a-prefix:{}", kind), format!("{} returned {:?}: {:?}", sc.query, out.rows, why.iter().map(|w| &w.1).collect::<Vec<_>>())));
                }
            }
        }
    }
    if obs.violation.is_none() && !panics.is_empty() {
        obs.violation = Some((
            format!("db-panic:{}:{}", panic_site(&panics[0]), crate::c03::norm_msg(&panics[0].message)),
            format!("a database thread panicked during the schedule: {:?}", panics.iter().map(|p| format!("{} {}", panic_site(p), p.message)).collect::<Vec<_>>()),
        ));
    }
    if obs.violation.is_none() {
        // after the race everything acknowledged must be there (quiescent check)
        let fin = rt.block_on(db.run_query("SELECT id FROM t", false, true, vec![]));
        let want: Vec<i64> = if sc.with_ingest { vec![1, 2, 3, 11, 12, 13, 21, 22] } else { vec![1, 2, 3, 11, 12, 13] };
        match fin {
            Ok(o) => {
                let got: Vec<RVal> = o.rows.unwrap_or_default().into_iter().map(|r| RVal::from_raw(&r[0])).collect();
                if got != want.iter().map(|i| ri(*i)).collect::<Vec<_>>() {
                    obs.violation = Some(("final-content".into(), format!("after the schedule SELECT id FROM t returns {:?}, expected {:?}", got, want)));
                }
            }
            Err(e) => obs.violation = Some((format!("final-query-failed:{}", err_kind(&e).0), format!("{}", e))),
        }
        if obs.violation.is_none() && sc.with_ingest {
            obs.violation = check_fresh(&db, &rt, "final-content");
        }
    }
    let hung = obs.violation.as_ref().map(|v| v.0.starts_with("no-completion")).unwrap_or(false);
    if !hung {
        drop(db);
    } else {
        std::mem::forget(db);
    }
    if obs.violation.is_none() && sc.restart_check {
        // clean restart without any further flush: acknowledged data must survive exactly once
        ctl_reset([false, false, false, false]);
        let db2 = LocustDB::new(&opts);
        let fin = rt.block_on(db2.run_query("SELECT id FROM t", false, true, vec![]));
        let want: Vec<i64> = if sc.with_ingest { vec![1, 2, 3, 11, 12, 13, 21, 22] } else { vec![1, 2, 3, 11, 12, 13] };
        match fin {
            Ok(o) => {
                let got: Vec<RVal> = o.rows.unwrap_or_default().into_iter().map(|r| RVal::from_raw(&r[0])).collect();
                if got != want.iter().map(|i| ri(*i)).collect::<Vec<_>>() {
                    let kind = if got.len() < want.len() { "rows-lost" } else if got.len() > want.len() { "rows-duplicated" } else { "rows-differ" };
                    obs.violation = Some((format!("after-restart:{}", kind), format!("an ingestion was acknowledged while a flush was in progress; after a clean restart SELECT id FROM t returns {:?}, expected {:?}", got, want)));
                }
            }
            Err(e) => obs.violation = Some((format!("after-restart:query-failed:{}", err_kind(&e).0), format!("{}", e))),
        }
        if obs.violation.is_none() && sc.with_ingest {
            obs.violation = check_fresh(&db2, &rt, "after-restart");
        }
        drop(db2);
    }
    obs.outcome = match &obs.violation {
        Some((s, _)) => format!("violation:{}", s.split(':').next().unwrap_or("")),
        None => "ok".into(),
    };
    let _ = std::fs::remove_dir_all(&dir);
    obs
}

/// Is `out` what `query` returns on content `r`? (the scenario's queries only)
fn check_answer(query: &str, out: &QOut, r: &RefDb) -> Option<(String, String)> {
    let t = &r.tables["t"];
    if query.starts_with("SELECT COUNT(1)") {
        let want = vec![vec![ri(t.rows.len() as i64)]];
        return if out.rows == want { None } else { Some(("count".into(), format!("expected {:?}", want))) };
    }
    let cols: Vec<String> = if query.starts_with("SELECT *") {
        // columns known at snapshot time may lag behind; compare on the columns returned
        out.colnames.clone()
    } else {
        query["SELECT ".len()..query.find(" FROM").unwrap()].split(", ").map(|s| s.to_string()).collect()
    };
    crate::hist::compare_rows(t, &cols, out, "q").map(|(a, b)| (a.split(':').nth(1).unwrap_or("").to_string(), b))
}

pub fn scenarios(tier: Tier) -> Vec<Scenario> {
    let mut v = vec![];
    for (q, cold) in [
        ("SELECT id FROM t", false),
        ("SELECT x FROM t", false),
        ("SELECT id, y FROM t", false),
        ("SELECT * FROM t", false),
        ("SELECT COUNT(1) FROM t", false),
        ("SELECT id, x, s FROM t", true),
    ] {
        for with_ingest in [false, true] {
            for factor in [0u64, 4] {
                if tier == Tier::Quick && factor == 4 && (with_ingest || cold) {
                    continue;
                }
                v.push(Scenario { query: q.to_string(), cold, with_ingest, factor, restart_check: false, no_query: false, with_evict: false });
            }
        }
    }
    // eviction as a fourth kind of step: while a flush with compaction and a query on (partly) cold columns run
    for (q, cold) in [("SELECT id, x, s FROM t", true), ("SELECT id, x FROM t", false)] {
        if tier == Tier::Quick && !cold {
            continue;
        }
        v.push(Scenario { query: q.to_string(), cold, with_ingest: false, factor: 0, restart_check: false, no_query: false, with_evict: true });
    }
    v
}

fn switches(points: &[(Vec<usize>, usize)]) -> usize {
    // a switch: choosing an actor other than the previously chosen one while that one was still enabled
    let mut n = 0;
    for i in 1..points.len() {
        let prev = points[i - 1].1;
        if points[i].1 != prev && points[i].0.contains(&prev) {
            n += 1;
        }
    }
    n
}

/// Depth-first enumeration with replay of all schedules with at most `bound` context switches.
pub fn explore(sc: &Scenario, bound: usize, max_runs: usize, visit: impl FnMut(&[usize], &RunObs)) -> (usize, bool) {
    explore_part(sc, bound, max_runs, 0, 1, visit)
}

/// Part `part` of `parts` of the exploration: the schedules are split by the position of their
/// first deviation from the default schedule (the default schedule itself belongs to part 0).
pub fn explore_part(sc: &Scenario, bound: usize, max_runs: usize, part: usize, parts: usize, mut visit: impl FnMut(&[usize], &RunObs)) -> (usize, bool) {
    let mut stack: Vec<Vec<usize>> = vec![vec![]];
    let mut runs = 0;
    let mut capped = false;
    while let Some(prefix) = stack.pop() {
        if runs >= max_runs {
            capped = true;
            break;
        }
        let obs = run_schedule(sc, &prefix);
        let root = prefix.is_empty();
        let choices: Vec<usize> = obs.points.iter().map(|p| p.1).collect();
        if !root || part == 0 {
            runs += 1;
            visit(&choices, &obs);
        }
        if obs.violation.is_some() {
            continue; // cut the path at its first violation
        }
        for i in prefix.len()..obs.points.len() {
            if root && i % parts != part {
                continue;
            }
            for alt in &obs.points[i].0 {
                if *alt == obs.points[i].1 {
                    continue;
                }
                let mut p: Vec<(Vec<usize>, usize)> = obs.points[..i].to_vec();
                p.push((obs.points[i].0.clone(), *alt));
                if switches(&p) <= bound {
                    let mut c: Vec<usize> = choices[..i].to_vec();
                    c.push(*alt);
                    stack.push(c);
                }
            }
        }
    }
    (runs, capped)
}

pub struct C10;

impl Engine for C10 {
    fn property(&self) -> &'static str {
        "C10"
    }

    fn describe(&self, tier: Tier) -> Describe {
        let bound = if tier == Tier::Quick { 2 } else { 3 };
        Describe {
            level: "model_checking",
            rule: format!("scenario: table t with one flushed batch and one batch in the open buffer (+ a second table), then concurrently actor F = force_flush (partition_combine_factor 0: every flush also compacts; 4: no compaction), actor Q = one query from {{SELECT id, SELECT x (a column the new partition lacks), SELECT id, y, SELECT *, COUNT(1), a query on evicted / reopened columns}} and optionally actor I = one ingestion request carrying a third batch for t and the first rows of a table that does not exist yet. The three actors are real database threads parked at the sync points compiled into wal_flush (begin, frozen, per table batched / sub-partitioned, batched, partition files written, partitions persisted, compaction begin / before swap / after swap / catalogue updated, compacted, catalogue persisted, orphans deleted, end), run_query (snapshot taken, before each partition, before each disk read) and ingest_efficient (begin, end). EVERY schedule 'run actor X to its next sync point' with at most {} context switches (one less in the scenarios with three actors) is executed (depth-first with replay). Oracle: the query returns Ok; its rows equal the content of a prefix of the acknowledged batch log (every batch whole, all batches acknowledged before the query started included); no database thread panics; all actors complete; afterwards SELECT id returns every acknowledged row once, for t and for the newly created table. Non-trivial: schedules with at least one switch; distinct by the sequence of sync points observed. LOCK LEVEL (second engine, /verif/harness-sched): the table core (Table, Partition, ColumnHandle, Lru, DiskReadScheduler signatures) of a mechanical copy of /repo's working tree is compiled against shuttle's Mutex / RwLock / atomics; threads F (freeze under the ingestion lock, batch, make evictable, optionally plan + compact all partitions), I (one ingestion under the ingestion lock), Q (Table::snapshot; one or two of them) and E (evict everything evictable) run as shuttle tasks and a depth-first scheduler enumerates, with replay and a divergence check, EVERY interleaving of their lock acquisitions / releases and atomic accesses with at most {} preemptions ({} in the four-thread scenario). Three more scenarios read the column of an evicted partition through Partition::get_cols / DiskReadScheduler::get_or_load (two readers, a reader and an eviction, two readers and an eviction; the store is an in-memory stand-in that always returns the column): every reader must get the stored values, no schedule may deadlock or spin without end (a thread chosen 60 times in a row while another is enabled is a spinner and has to let the other run; an execution of more than 50 000 decisions is a livelock). Oracle per snapshot: row ranges are contiguous from 0 without overlap, cover a whole number of requests, include everything acknowledged before the snapshot started, and resident id columns hold exactly the ids of their range; afterwards the quiescent snapshot holds every acknowledged row once.", bound, if tier == Tier::Quick { 2 } else { 3 }, if tier == Tier::Quick { 1 } else { 2 }),
            assumptions: vec![
                "interleavings are explored at sync-point granularity; lock-level interleavings between two sync points are taken as they come".into(),
                "an actor that does not reach its next sync point within the patience window is treated as blocked by a parked actor and left running; only a schedule in which the actors never complete counts as a hang".into(),
                "the order of tables inside one flush follows HashMap iteration and may differ between runs; schedules are replayed by choice sequence".into(),
                "lock level: the driver reproduces the one lock of the protocol that lives outside the table (InnerLocustDB.wal_size: held by an ingestion until it is acknowledged and by the flush while it freezes); tables have one column so that HashMap iteration order cannot change the order of lock operations (a divergence between two runs of the same choice sequence is a machinery error); memory orderings weaker than sequential consistency are not modelled by shuttle".into(),
            ],
            bounds: json!({"context_switch_bound": bound, "scenarios": scenarios(tier).len(), "lock_level": {"scenarios": LOCK_SCENARIOS, "preemption_bound": if tier == Tier::Quick { 2 } else { 3 }, "preemption_bound_four_threads": if tier == Tier::Quick { 1 } else { 2 }, "execution_cap_per_scenario": if tier == Tier::Quick { 400_000 } else { 4_000_000 }}}),
            states_meaning: "distinct sync-point traces (schedules) executed",
        }
    }

    fn run_shard(&self, tier: Tier, shard: usize, nshards: usize, out: &mut ShardResult) {
        install_gate_controller();
        let bound = if tier == Tier::Quick { 2 } else { 3 };
        let max_runs = if tier == Tier::Quick { 400 } else { 1500 };
        let parts = 4usize;
        for (si, sc) in scenarios(tier).iter().enumerate() {
          for part in 0..parts {
            if (si * parts + part) % nshards != shard {
                continue;
            }
            let mut local: Vec<(Vec<usize>, String, String, Vec<String>)> = vec![];
            // three actors: one switch less (the space grows with the square of the number of sync points)
            let bound = if sc.with_ingest || sc.with_evict { bound - 1 } else { bound };
            let (runs, capped) = explore_part(sc, bound, max_runs, part, parts, |choices, obs| {
                out.evaluations += 1;
                out.transitions += obs.points.len() as u64;
                let h = hash64(format!("{:?}|{:?}", sc, obs.trace).as_bytes());
                out.states.insert(h);
                if switches(&obs.points) >= 1 {
                    out.nontrivial.insert(h);
                }
                out.outcome(&obs.outcome);
                if let Some((sig, what)) = &obs.violation {
                    local.push((choices.to_vec(), sig.clone(), what.clone(), obs.trace.clone()));
                }
                if out.samples.len() < 2 && switches(&obs.points) == 2 {
                    out.sample(json!({"scenario": sc, "trace": obs.trace}));
                }
            });
            out.count("schedules", runs as u64);
            if capped {
                out.caps_hit.push(format!("scenario {:?}: stopped after {} schedules", sc, runs));
            }
            for (choices, sig, what, trace) in local {
                if std::env::var("LVMC_TRACE").is_ok() {
                    eprintln!("[trace] {:?} {:?} :: {} :: {} :: {:?}", sc, choices, sig, what, trace);
                }
                out.violation(Violation {
                    sig: format!("C10:{}", sig),
                    what: format!("scenario {:?}, schedule {:?} (sync points: {:?}): {}", sc, choices, trace, what),
                    weight: choices.len() as u64,
                    case: serde_json::to_value(GateCase { scenario: sc.clone(), schedule: choices, expect: sig.clone() }).unwrap(),
                });
            }
          }
        }
        run_lock_level(tier, shard, nshards, out);
    }

    fn replay(&self, case: &Value) -> Option<Violation> {
        if let Some(sc) = case.get("sched") {
            return replay_lock_level(sc, case);
        }
        replay_gate_case_with("C10:", case)
    }
}

// ---------------------------------------------------------------------------------------------
// lock-level exploration (E-sched): a second binary, /verif/harness-sched, built by ./check from a
// copy of /repo in which the table core uses shuttle's lock and atomic types
// ---------------------------------------------------------------------------------------------

const LSCHED: &str = "/verif/target-sched/debug/lsched";
pub const LOCK_SCENARIOS: [&str; 9] = [
    "flush+query",
    "flush+ingest+query",
    "flush+compaction+query",
    "flush+compaction+ingest+query",
    "flush+compaction+evict+query",
    "flush+ingest+two-queries",
    "load+load",
    "load+evict",
    "load+load+evict",
];

fn run_lock_level(tier: Tier, shard: usize, nshards: usize, out: &mut ShardResult) {
    for (k, name) in LOCK_SCENARIOS.iter().enumerate() {
        // the sync-point scenarios load the low shards first
        if (nshards - 1 - (k % nshards)) != shard {
            continue;
        }
        let o = std::process::Command::new(LSCHED)
            .args(["run", if tier == Tier::Quick { "quick" } else { "thorough" }, name])
            .output()
            .unwrap_or_else(|e| panic!("cannot run {}: {} (./check C10 builds it)", LSCHED, e));
        if !o.status.success() {
            panic!("{} failed on scenario {}: {}", LSCHED, name, String::from_utf8_lossy(&o.stderr).lines().rev().take(5).collect::<Vec<_>>().join(" | "));
        }
        let reports: Vec<Value> = serde_json::from_slice(&o.stdout).unwrap_or_else(|e| panic!("{}: unreadable report: {}", LSCHED, e));
        for r in reports {
            if let Some(d) = r["divergence"].as_str() {
                // the same choice sequence gave different enabled sets: the exploration is not trustworthy
                panic!("lock-level exploration of {} is not deterministic: {}", name, d);
            }
            let ex = r["executions"].as_u64().unwrap_or(0);
            out.evaluations += ex;
            out.transitions += r["decisions"].as_u64().unwrap_or(0);
            out.count("lock_level_executions", ex);
            out.count("lock_level_snapshots_checked", r["snapshots_checked"].as_u64().unwrap_or(0));
            let h = hash64(format!("lock-level|{}|{}", name, ex).as_bytes());
            out.states.insert(h);
            out.nontrivial.insert(h);
            if let Some(m) = r["outcomes"].as_object() {
                for (k, n) in m {
                    for _ in 0..n.as_u64().unwrap_or(0).min(1) {
                        out.outcome(&format!("lock-level:{}:{}", name, k));
                    }
                }
            }
            if r["capped"].as_bool().unwrap_or(false) {
                out.caps_hit.push(format!("lock-level scenario {}: stopped after {} executions (preemption bound {})", name, ex, r["preemption_bound"]));
            }
            for v in r["violations"].as_array().cloned().unwrap_or_default() {
                let sig = v["sig"].as_str().unwrap_or("C10:locks").to_string();
                out.violation(Violation {
                    sig: sig.clone(),
                    what: format!("lock-level scenario {}, choices {}: {}", name, v["choices"], v["what"].as_str().unwrap_or("")),
                    weight: v["choices"].as_array().map(|a| a.len() as u64).unwrap_or(0),
                    case: json!({"sched": {"scenario": name, "choices": v["choices"]}, "expect": sig}),
                });
            }
        }
    }
}

fn replay_lock_level(sc: &Value, case: &Value) -> Option<Violation> {
    let name = sc["scenario"].as_str()?;
    let choices: Vec<String> = sc["choices"].as_array()?.iter().map(|c| c.to_string()).collect();
    let o = std::process::Command::new(LSCHED).args(["replay", name, &choices.join(",")]).output().ok()?;
    let v: Value = serde_json::from_slice(&o.stdout).ok()?;
    if o.status.code() == Some(1) {
        return Some(Violation { sig: v["sig"].as_str().unwrap_or("C10:locks").to_string(), what: v["what"].as_str().unwrap_or("").to_string(), weight: 1, case: case.clone() });
    }
    if o.status.code() == Some(2) {
        panic!("lock-level replay diverged: {}", v);
    }
    None
}

/// C08 under schedules: an ingestion acknowledged at any sync point of a concurrent flush survives a
/// clean restart. Called from the C08 engine.
pub fn restart_scenarios() -> Vec<Scenario> {
    vec![
        Scenario { query: "SELECT COUNT(1) FROM t".into(), cold: false, with_ingest: true, factor: 4, restart_check: true, no_query: true, with_evict: false },
        Scenario { query: "SELECT COUNT(1) FROM t".into(), cold: false, with_ingest: true, factor: 0, restart_check: true, no_query: true, with_evict: false },
    ]
}

pub fn run_restart_scenarios(prop: &str, tier: Tier, shard: usize, nshards: usize, out: &mut ShardResult) {
    install_gate_controller();
    let bound = 2;
    let max_runs = if tier == Tier::Quick { 500 } else { 3000 };
    for (si, sc) in restart_scenarios().iter().enumerate() {
        // spread over the last shards (the first ones carry the remainder of the history enumeration)
        if (nshards - 1 - si % nshards) != shard {
            continue;
        }
        let mut local = vec![];
        let (runs, capped) = explore(sc, bound, max_runs, |choices, obs| {
            out.evaluations += 1;
            out.transitions += obs.points.len() as u64 + 1;
            let h = hash64(format!("{:?}|{:?}", sc, obs.trace).as_bytes());
            out.states.insert(h);
            out.nontrivial.insert(h);
            out.outcome(&format!("schedule-{}", obs.outcome));
            if let Some((sig, what)) = &obs.violation {
                local.push((choices.to_vec(), sig.clone(), what.clone(), obs.trace.clone()));
            }
        });
        out.count("schedules", runs as u64);
        if capped {
            out.caps_hit.push(format!("scenario {:?}: stopped after {} schedules", sc, runs));
        }
        for (choices, sig, what, trace) in local {
            out.violation(Violation {
                sig: format!("{}:schedule:{}", prop, sig),
                what: format!("scenario {:?}, schedule {:?} (sync points: {:?}): {}", sc, choices, trace, what),
                weight: choices.len() as u64,
                case: serde_json::to_value(GateCase { scenario: sc.clone(), schedule: choices, expect: sig.clone() }).unwrap(),
            });
        }
    }
}

pub fn replay_gate_case(prop: &str, case: &Value) -> Option<Violation> {
    replay_gate_case_with(&format!("{}:schedule:", prop), case)
}

/// Replays the recorded schedule; if the run does not show the recorded signature (table order
/// inside the flush differs), re-explores the scenario until it does.
pub fn replay_gate_case_with(prefix: &str, case: &Value) -> Option<Violation> {
    install_gate_controller();
    let c: GateCase = serde_json::from_value(case.clone()).ok()?;
    let mut other: Option<Violation> = None;
    for _ in 0..2 {
        let obs = run_schedule(&c.scenario, &c.schedule);
        if let Some((sig, what)) = obs.violation {
            let v = Violation { sig: format!("{}{}", prefix, sig), what, weight: 1, case: case.clone() };
            if c.expect.is_empty() || sig == c.expect {
                return Some(v);
            }
            other = Some(v);
        }
    }
    if !c.expect.is_empty() {
        let mut found: Option<Violation> = None;
        explore(&c.scenario, 3, 2500, |_, obs| {
            if found.is_none() {
                if let Some((sig, what)) = &obs.violation {
                    if *sig == c.expect {
                        found = Some(Violation { sig: format!("{}{}", prefix, sig), what: what.clone(), weight: 1, case: case.clone() });
                    }
                }
            }
        });
        if found.is_some() {
            return found;
        }
    }
    other
}
