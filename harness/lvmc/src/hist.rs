//! E-hist: exhaustive enumeration of operation histories on a real on-disk database
//! (C07, C08, C13, C18). Every history of the stated depth over the stated alphabet is executed
//! from a fresh directory; the oracle is evaluated after every prefix (once per distinct prefix).
use std::collections::{BTreeMap, BTreeSet};
use std::path::Path;

use serde::{Deserialize, Serialize};
use serde_json::{json, Value};

use crate::common::*;
use crate::runner::*;

#[derive(Clone, Debug, Serialize, Deserialize, PartialEq, Eq, Hash)]
pub enum Op {
    Ingest(usize),
    Flush,
    Evict,
    Restart,
    /// wait until background flushing has gone quiet (only in background-flush configurations)
    Settle,
}

#[derive(Clone, Debug, Serialize, Deserialize)]
pub struct HistCase {
    pub flavor: String,
    pub opts: DbOpts,
    pub batches: Vec<Batch>,
    pub path: IngestPath,
    pub ops: Vec<Op>,
}

#[derive(Clone, Copy, PartialEq, Eq, Debug)]
pub enum Flavor {
    C07,
    C08,
    C13,
    C18,
}

impl Flavor {
    fn name(&self) -> &'static str {
        match self {
            Flavor::C07 => "C07",
            Flavor::C08 => "C08",
            Flavor::C13 => "C13",
            Flavor::C18 => "C18",
        }
    }
    fn parse(s: &str) -> Flavor {
        match s {
            "C07" => Flavor::C07,
            "C08" => Flavor::C08,
            "C13" => Flavor::C13,
            "C18" => Flavor::C18,
            _ => panic!("flavor"),
        }
    }
}

pub struct HistEngine {
    pub flavor: Flavor,
}

// ---------------------------------------------------------------------------------------------
// Alphabets
// ---------------------------------------------------------------------------------------------

fn ints(xs: &[i64]) -> Vec<RVal> {
    xs.iter().map(|x| ri(*x)).collect()
}
fn strs(xs: &[&str]) -> Vec<RVal> {
    xs.iter().map(|x| rs(x)).collect()
}
fn opt_ints(xs: &[Option<i64>]) -> Vec<RVal> {
    xs.iter().map(|x| x.map(ri).unwrap_or(RVal::Null)).collect()
}
fn opt_floats(xs: &[Option<f64>]) -> Vec<RVal> {
    xs.iter().map(|x| x.map(rf).unwrap_or(RVal::Null)).collect()
}
fn opt_strs(xs: &[Option<&str>]) -> Vec<RVal> {
    xs.iter().map(|x| x.map(rs).unwrap_or(RVal::Null)).collect()
}

/// Batch shapes for C07. The columns x (int), y (float), z (string) are shared by the shapes and
/// take every presence class (dense, nullable with a NULL in the first row, all NULL, absent) and
/// every encoding class, so that compaction merges partitions in which the same column is
/// non-null / nullable / absent in any order, with row counts that are not multiples of 8 except
/// for one shape of exactly 16 rows.
pub fn c07_batches() -> Vec<Batch> {
    let long = "x".repeat(300);
    vec![
        // dense small ints, dense floats, dictionary strings
        Batch::one(
            TableBatch::new("t", 3)
                .col("id", ints(&[1, 2, 3]))
                .col("x", ints(&[1, 2, 3]))
                .col("y", vec![rf(0.5), rf(2.0), rf(-1.25)])
                .col("z", strs(&["a", "b", "a"])),
        ),
        // all three nullable, NULL in the first row; exactly 16 rows, so that a chunk pushed after it by a
        // compaction starts on a byte boundary of the null map (the other shapes never do); x and y are
        // NULL in the whole second half (their lazily grown null maps end one byte early), z has a value
        // in the last row
        Batch::one(
            TableBatch::new("t", 16)
                .col("id", ints(&[10, 11, 12, 13, 14, 15, 16, 17, 18, 19, 110, 111, 112, 113, 114, 115]))
                .col("x", opt_ints(&[None, Some(5), None, Some(-7), None, None, None, None, None, None, None, None, None, None, None, None]))
                .col(
                    "y",
                    opt_floats(&[None, Some(1.5), None, Some(-0.0), None, Some(2.5), Some(3.5), None, None, None, None, None, None, None, None, None]),
                )
                .col_repr(
                    "z",
                    opt_strs(&[None, Some("q"), Some(""), None, Some("q"), Some("r"), None, Some("s"), None, None, Some("q"), None, None, None, Some("r"), Some("t")]),
                    Repr::Mixed,
                ),
        ),
        // wide ints, hex strings (packed-hex codec), y absent
        Batch::one(
            TableBatch::new("t", 3)
                .col("id", ints(&[20, 21, 22]))
                .col("x", ints(&[i64::MIN, 1 << 40, i64::MAX - 1]))
                .col("z", strs(&["00ff10", "deadbeef", "0a0b0c0d0e"])),
        ),
        // x entirely NULL, y and z absent
        Batch::one(
            TableBatch::new("t", 2)
                .col("id", ints(&[30, 31]))
                .col_repr("x", vec![RVal::Null, RVal::Null], Repr::Empty),
        ),
        // long / unicode strings (packed, compressible), floats incl. infinity, x absent
        Batch::one(
            TableBatch::new("t", 3)
                .col("id", ints(&[40, 41, 42]))
                .col("y", vec![rf(0.1), rf(f64::INFINITY), rf(2.0)])
                .col("z", strs(&["héllo wörld ☃", &long, "z"])),
        ),
        // nullable with the NULL late, low-cardinality nullable strings (nullable dictionary)
        Batch::one(
            TableBatch::new("t", 6)
                .col("id", ints(&[50, 51, 52, 53, 54, 55]))
                .col("x", opt_ints(&[Some(300), Some(301), Some(302), Some(303), None, Some(70000)]))
                .col("y", opt_floats(&[Some(1.0), Some(1.0), Some(1.0), None, Some(1.0), Some(1.0)]))
                .col_repr(
                    "z",
                    opt_strs(&[Some("q"), Some("q"), None, Some("r"), Some("q"), None]),
                    Repr::Mixed,
                ),
        ),
    ]
}

pub fn c08_batches() -> Vec<Batch> {
    vec![
        Batch::one(
            TableBatch::new("t", 2)
                .col("id", ints(&[1, 2]))
                .col("s", strs(&["a", "b"])),
        ),
        Batch::one(
            TableBatch::new("u", 2)
                .col("id", ints(&[10, 11]))
                .col("x", opt_floats(&[Some(1.5), None])),
        ),
        Batch {
            tables: vec![
                TableBatch::new("t", 1).col("id", ints(&[3])).col("n", ints(&[7])),
                TableBatch::new("u", 1).col("id", ints(&[12])).col("y", strs(&["yy"])),
            ],
        },
    ]
}

pub fn c13_batches() -> Vec<Batch> {
    let long_name = "n".repeat(70);
    let mk = |table: &str, base: i64, names: &[&str]| {
        let mut tb = TableBatch::new(table, 2);
        for (k, n) in names.iter().enumerate() {
            // column contents identify (column, row)
            tb = tb.col(n, ints(&[base + 100 * k as i64, base + 100 * k as i64 + 1]));
        }
        Batch::one(tb)
    };
    vec![
        mk("t", 0, &["a", "b"]),
        mk("t", 10, &["A", "a"]),
        mk("t", 20, &["é", "zz"]),
        mk("t", 30, &[&long_name, "0"]),
        mk("t", 40, &["_a"]),
        mk("u", 50, &["b", "zz", "A"]),
    ]
}

pub fn c18_batches() -> Vec<Batch> {
    vec![
        Batch::one(
            TableBatch::new("t", 3)
                .col("id", ints(&[1, 2, 3]))
                .col("s", strs(&["a", "b", "a"]))
                .col("f", vec![rf(1.0), rf(2.5), rf(-1.0)]),
        ),
        Batch::one(
            TableBatch::new("u", 2)
                .col("id", ints(&[10, 11]))
                .col("ni", opt_ints(&[Some(5), None])),
        ),
    ]
}

struct Plan {
    /// configuration and the history depth explored exhaustively under it
    opts: Vec<(DbOpts, usize)>,
    batches: Vec<Batch>,
    alphabet: Vec<Op>,
}

fn plan(flavor: Flavor, tier: Tier) -> Vec<Plan> {
    let base = DbOpts::default();
    let mut plans = vec![];
    match flavor {
        Flavor::C07 => {
            let batches = c07_batches();
            let mut alphabet: Vec<Op> = (0..batches.len()).map(Op::Ingest).collect();
            alphabet.extend([Op::Flush, Op::Evict, Op::Restart]);
            let mut opts = vec![];
            for factor in [0u64, 1, 4] {
                for mps in [8 * 1024 * 1024u64, 1] {
                    // the two configurations in which every flush compacts / merges get the deeper bound
                    let deep = (factor == 0 && mps > 1) || (factor == 1 && mps == 1);
                    let depth = match (tier, deep) {
                        (Tier::Quick, true) => 4,
                        (Tier::Quick, false) => 3,
                        (Tier::Thorough, true) if factor == 0 => 5,
                        (Tier::Thorough, _) => 4,
                    };
                    opts.push((
                        DbOpts {
                            partition_combine_factor: factor,
                            max_partition_size_bytes: mps,
                            ..base.clone()
                        },
                        depth,
                    ));
                }
            }
            plans.push(Plan {
                opts,
                batches,
                alphabet,
            });
        }
        Flavor::C08 => {
            let batches = c08_batches();
            let mut alphabet: Vec<Op> = (0..batches.len()).map(Op::Ingest).collect();
            alphabet.extend([Op::Flush, Op::Restart]);
            let mut opts = vec![];
            for io in [1usize, 4] {
                for factor in [4u64, 0] {
                    let deep = io == 1;
                    let depth = match (tier, deep) {
                        (Tier::Quick, true) => 5,
                        (Tier::Quick, false) => 4,
                        (Tier::Thorough, true) => 6,
                        (Tier::Thorough, false) => 5,
                    };
                    opts.push((
                        DbOpts {
                            io_threads: io,
                            partition_combine_factor: factor,
                            ..base.clone()
                        },
                        depth,
                    ));
                }
            }
            plans.push(Plan {
                opts,
                batches: batches.clone(),
                alphabet,
            });
            // background flushes: every ingestion crosses a limit
            let mut alphabet: Vec<Op> = (0..batches.len()).map(Op::Ingest).collect();
            alphabet.extend([Op::Settle, Op::Restart]);
            let bg_depth = if tier == Tier::Quick { 2 } else { 4 };
            plans.push(Plan {
                opts: vec![
                    (
                        DbOpts {
                            max_wal_files: 1,
                            ..base.clone()
                        },
                        bg_depth,
                    ),
                    (
                        DbOpts {
                            max_wal_size_bytes: 1,
                            ..base.clone()
                        },
                        bg_depth,
                    ),
                ],
                batches,
                alphabet,
            });
        }
        Flavor::C13 => {
            let batches = c13_batches();
            let mut alphabet: Vec<Op> = (0..batches.len()).map(Op::Ingest).collect();
            alphabet.extend([Op::Flush, Op::Restart]);
            let mut opts = vec![];
            for factor in [0u64, 4] {
                for mps in [8 * 1024 * 1024u64, 1] {
                    let deep = factor == 0;
                    let depth = match (tier, deep) {
                        (Tier::Quick, true) => 4,
                        (Tier::Quick, false) => 3,
                        (Tier::Thorough, true) => 5,
                        (Tier::Thorough, false) => 4,
                    };
                    opts.push((
                        DbOpts {
                            partition_combine_factor: factor,
                            max_partition_size_bytes: mps,
                            ..base.clone()
                        },
                        depth,
                    ));
                }
            }
            plans.push(Plan {
                opts,
                batches,
                alphabet,
            });
            // narrow alphabet, deeper: a column that is present in a flushed partition, missing from
            // a later (possibly still unflushed) batch and mentioned again afterwards
            let mk = |base: i64, names: &[&str]| {
                let mut tb = TableBatch::new("t", 2);
                for (k, n) in names.iter().enumerate() {
                    tb = tb.col(n, ints(&[base + 100 * k as i64, base + 100 * k as i64 + 1]));
                }
                Batch::one(tb)
            };
            let batches = vec![mk(0, &["a", "b"]), mk(10, &["a"]), mk(20, &["c", "b"])];
            let mut alphabet: Vec<Op> = (0..batches.len()).map(Op::Ingest).collect();
            alphabet.extend([Op::Flush, Op::Restart]);
            let d = if tier == Tier::Quick { 5 } else { 6 };
            plans.push(Plan {
                opts: vec![
                    (
                        DbOpts {
                            partition_combine_factor: 0,
                            ..base.clone()
                        },
                        d,
                    ),
                    (
                        DbOpts {
                            partition_combine_factor: 4,
                            ..base.clone()
                        },
                        d,
                    ),
                ],
                batches,
                alphabet,
            });
        }
        Flavor::C18 => {
            let batches = c18_batches();
            let mut alphabet: Vec<Op> = (0..batches.len()).map(Op::Ingest).collect();
            alphabet.extend([Op::Flush, Op::Restart]);
            let mut opts = vec![];
            for factor in [0u64, 1, 4] {
                for mps in [8 * 1024 * 1024u64, 1] {
                    for (io, ct) in [(1usize, 1usize), (4, 2)] {
                        let deep = io == 1 && factor < 4;
                        let depth = match (tier, deep) {
                            (Tier::Quick, true) => 5,
                            (Tier::Quick, false) => 4,
                            (Tier::Thorough, true) => 7,
                            (Tier::Thorough, false) => 6,
                        };
                        opts.push((
                            DbOpts {
                                partition_combine_factor: factor,
                                max_partition_size_bytes: mps,
                                io_threads: io,
                                wal_flush_compaction_threads: ct,
                                ..base.clone()
                            },
                            depth,
                        ));
                    }
                }
            }
            plans.push(Plan {
                opts,
                batches: batches.clone(),
                alphabet,
            });
            // ingestion held back by the log-size limit until the background flush runs
            let mut alphabet: Vec<Op> = (0..batches.len()).map(Op::Ingest).collect();
            alphabet.extend([Op::Settle]);
            plans.push(Plan {
                opts: vec![(
                    DbOpts {
                        max_wal_size_bytes: 1,
                        partition_combine_factor: 0,
                        ..base.clone()
                    },
                    if tier == Tier::Quick { 2 } else { 4 },
                )],
                batches,
                alphabet,
            });
        }
    }
    plans
}

// ---------------------------------------------------------------------------------------------
// Execution
// ---------------------------------------------------------------------------------------------

fn class(v: &RVal) -> &'static str {
    match v {
        RVal::Null => "null",
        RVal::Int(_) => "int",
        RVal::Float(_) => "float",
        RVal::Str(_) => "str",
    }
}

fn op_kind(op: &Op) -> &'static str {
    match op {
        Op::Ingest(_) => "ingest",
        Op::Flush => "flush",
        Op::Evict => "evict",
        Op::Restart => "restart",
        Op::Settle => "settle",
    }
}

pub fn qident(name: &str) -> String {
    format!("\"{}\"", name)
}

/// Compare the rows of a query result against the reference rows of `table` for `cols`.
/// Returns a (signature detail, description) on mismatch.
pub fn compare_rows(
    rt: &RefTable,
    cols: &[String],
    out: &QOut,
    qkind: &str,
) -> Option<(String, String)> {
    if out.colnames != cols {
        let got: BTreeSet<_> = out.colnames.iter().cloned().collect();
        let want: BTreeSet<_> = cols.iter().cloned().collect();
        let missing: Vec<_> = want.difference(&got).cloned().collect();
        let extra: Vec<_> = got.difference(&want).cloned().collect();
        let dup = out.colnames.len() != got.len();
        return Some((
            format!(
                "{}:columns:missing={}:extra={}:dup={}",
                qkind,
                missing.len().min(1),
                extra.len().min(1),
                dup
            ),
            format!(
                "{}: column list differs: expected {:?}, got {:?}",
                qkind, cols, out.colnames
            ),
        ));
    }
    // row view and column view must agree
    if out.cols.len() != cols.len() {
        return Some((
            format!("{}:colview-width", qkind),
            format!("{}: column view has {} columns, expected {}", qkind, out.cols.len(), cols.len()),
        ));
    }
    for (ci, (_, vals)) in out.cols.iter().enumerate() {
        if vals.len() != out.rows.len() {
            return Some((
                format!("{}:colview-len", qkind),
                format!(
                    "{}: column view of {} has {} cells, row view has {} rows",
                    qkind,
                    cols[ci],
                    vals.len(),
                    out.rows.len()
                ),
            ));
        }
        for (ri_, row) in out.rows.iter().enumerate() {
            if row.get(ci) != Some(&vals[ri_]) {
                return Some((
                    format!("{}:views-disagree", qkind),
                    format!(
                        "{}: row view and column view disagree at row {} column {}: {:?} vs {:?}",
                        qkind,
                        ri_,
                        cols[ci],
                        row.get(ci),
                        vals[ri_]
                    ),
                ));
            }
        }
    }
    if out.rows.len() != rt.rows.len() {
        return Some((
            format!(
                "{}:rowcount:{}",
                qkind,
                if out.rows.len() < rt.rows.len() { "fewer" } else { "more" }
            ),
            format!("{}: {} rows returned, {} expected", qkind, out.rows.len(), rt.rows.len()),
        ));
    }
    for (r, row) in out.rows.iter().enumerate() {
        for (c, name) in cols.iter().enumerate() {
            let want = rt.rows[r].get(name).cloned().unwrap_or(RVal::Null);
            let got = &row[c];
            if !cell_matches(&want, got, rt.kinds.get(name)) {
                return Some((
                    format!("{}:cell:{}:{}->{}", qkind, name_class(name), class(&want), class(got)),
                    format!(
                        "{}: row {} column {:?}: expected {:?}, got {:?}",
                        qkind, r, name, want, got
                    ),
                ));
            }
        }
    }
    None
}

fn name_class(name: &str) -> String {
    if name.len() > 20 {
        format!("long{}", name.len())
    } else {
        name.to_string()
    }
}

struct Run {
    db: Db,
    refdb: RefDb,
    transitions: u64,
}

fn query_ok(run: &mut Run, q: &str, qkind: &str) -> Result<QOut, (String, String)> {
    run.transitions += 1;
    match run.db.query(q) {
        Outcome::Ok(Ok(o)) => Ok(o),
        Outcome::Ok(Err((kind, msg))) => Err((
            format!("{}:error:{}", qkind, kind),
            format!("query {:?} failed: {}: {}", q, kind, msg),
        )),
        Outcome::Panic(m) => Err((
            format!("{}:caller-panic", qkind),
            format!("query {:?} panicked in the caller: {}", q, m),
        )),
        Outcome::Hang => Err((
            format!("{}:hang", qkind),
            format!("query {:?} did not return within the deadline", q),
        )),
    }
}

fn check_content(run: &mut Run, full: bool) -> Option<(String, String)> {
    let tables: Vec<String> = run.refdb.tables.keys().cloned().collect();
    for t in tables {
        let rt = run.refdb.tables[&t].clone();
        let cols: Vec<String> = rt.columns.iter().cloned().collect();
        let star = match query_ok(run, &format!("SELECT * FROM {}", qident(&t)), "star") {
            Ok(o) => o,
            Err(e) => return Some(e),
        };
        if let Some(e) = compare_rows(&rt, &cols, &star, "star") {
            return Some(e);
        }
        let list = cols.iter().map(|c| qident(c)).collect::<Vec<_>>().join(", ");
        let explicit = match query_ok(run, &format!("SELECT {} FROM {}", list, qident(&t)), "explicit") {
            Ok(o) => o,
            Err(e) => return Some(e),
        };
        if let Some(e) = compare_rows(&rt, &cols, &explicit, "explicit") {
            return Some(e);
        }
        if full {
            for c in &cols {
                let o = match query_ok(run, &format!("SELECT {} FROM {}", qident(c), qident(&t)), "single") {
                    Ok(o) => o,
                    Err(e) => return Some(e),
                };
                if let Some(e) = compare_rows(&rt, &[c.clone()], &o, "single") {
                    return Some(e);
                }
                let o = match query_ok(
                    run,
                    &format!("SELECT COUNT({}) FROM {}", qident(c), qident(&t)),
                    "countcol",
                ) {
                    Ok(o) => o,
                    Err(e) => return Some(e),
                };
                let want = rt.rows.iter().filter(|r| r.contains_key(c)).count() as i64;
                if want == 0 {
                    // COUNT over a column without any value is C04's business, not a maintenance effect
                    continue;
                }
                if o.rows.len() != 1 || o.rows[0] != vec![ri(want)] {
                    return Some((
                        format!("countcol:{}", name_class(c)),
                        format!("COUNT({}) on {} returned {:?}, expected {}", c, t, o.rows, want),
                    ));
                }
            }
            let o = match query_ok(run, &format!("SELECT COUNT(1) FROM {}", qident(&t)), "count") {
                Ok(o) => o,
                Err(e) => return Some(e),
            };
            if o.rows.len() != 1 || o.rows[0] != vec![ri(rt.rows.len() as i64)] {
                return Some((
                    "count".to_string(),
                    format!("COUNT(1) on {} returned {:?}, expected {}", t, o.rows, rt.rows.len()),
                ));
            }
        }
    }
    None
}

fn check_catalogue(run: &mut Run) -> Option<(String, String)> {
    // table list: every user table and its column table exactly once
    let mut want: Vec<String> = vec![];
    for t in run.refdb.tables.keys() {
        want.push(t.clone());
        want.push(format!("_meta_columns_{}", t));
    }
    want.sort();
    if !want.is_empty() {
        let o = match query_ok(run, "SELECT name FROM _meta_tables", "meta_tables") {
            Ok(o) => o,
            Err(e) => return Some(e),
        };
        let mut got: Vec<String> = o
            .rows
            .iter()
            .map(|r| match &r[0] {
                RVal::Str(s) => s.clone(),
                other => format!("{:?}", other),
            })
            .collect();
        got.sort();
        if got != want {
            let dup = got.windows(2).any(|w| w[0] == w[1]);
            let gs: BTreeSet<_> = got.iter().collect();
            let ws: BTreeSet<_> = want.iter().collect();
            return Some((
                format!(
                    "meta_tables:dup={}:missing={}:extra={}",
                    dup,
                    ws.difference(&gs).count().min(1),
                    gs.difference(&ws).count().min(1)
                ),
                format!("_meta_tables lists {:?}, expected {:?}", got, want),
            ));
        }
    }
    let tables: Vec<String> = run.refdb.tables.keys().cloned().collect();
    for t in tables {
        let mut want: Vec<String> = run.refdb.tables[&t].columns.iter().cloned().collect();
        want.sort();
        let q = format!("SELECT column_name FROM {}", qident(&format!("_meta_columns_{}", t)));
        let o = match query_ok(run, &q, "meta_columns") {
            Ok(o) => o,
            Err(e) => return Some(e),
        };
        let mut got: Vec<String> = o
            .rows
            .iter()
            .map(|r| match &r[0] {
                RVal::Str(s) => s.clone(),
                other => format!("{:?}", other),
            })
            .collect();
        got.sort();
        if got != want {
            let dup = got.windows(2).any(|w| w[0] == w[1]);
            let gs: BTreeSet<_> = got.iter().collect();
            let ws: BTreeSet<_> = want.iter().collect();
            return Some((
                format!(
                    "meta_columns:dup={}:missing={}:extra={}",
                    dup,
                    ws.difference(&gs).count().min(1),
                    gs.difference(&ws).count().min(1)
                ),
                format!("_meta_columns_{} lists {:?}, expected {:?}", t, got, want),
            ));
        }
        // search_column_names agrees
        let tt = t.clone();
        run.transitions += 1;
        let r = run.db.call(move |db, rt| {
            rt.block_on(db.search_column_names(&tt, ".*")).map_err(|e| format!("{}", e))
        });
        match r {
            Outcome::Ok(Ok(mut names)) => {
                names.sort();
                if names != want {
                    return Some((
                        "search_column_names:differs".to_string(),
                        format!("search_column_names({}) = {:?}, expected {:?}", t, names, want),
                    ));
                }
            }
            Outcome::Ok(Err(e)) => {
                return Some((
                    "search_column_names:error".to_string(),
                    format!("search_column_names({}) failed: {}", t, e),
                ))
            }
            other => {
                return Some((
                    format!("search_column_names:{}", if matches!(other, Outcome::Hang) { "hang" } else { "caller-panic" }),
                    format!("search_column_names({}): {}", t, other.describe()),
                ))
            }
        }
    }
    None
}

/// Expected file set from the decoded on-disk catalogue.
pub fn expected_files(dir: &Path) -> Result<BTreeSet<String>, String> {
    use locustdb::verif::{BlobWriter, FileBlobWriter, MetaStore, VersionedChecksummedBlobWriter};
    let mut want = BTreeSet::new();
    let meta = dir.join("meta");
    if !meta.exists() {
        return Ok(want);
    }
    want.insert("meta".to_string());
    let w = VersionedChecksummedBlobWriter::new(Box::new(FileBlobWriter::new()));
    let data = w.load(&meta).map_err(|e| format!("catalogue unreadable: {}", e))?;
    let ms = MetaStore::deserialize(&data).map_err(|e| format!("catalogue undecodable: {}", e))?;
    for p in ms.partitions() {
        for sp in &p.subpartitions {
            want.insert(format!(
                "tables/{}/{}",
                locustdb::verif::sanitize_table_name(&p.tablename),
                locustdb::verif::partition_filename(p.id, &sp.subpartition_key)
            ));
        }
    }
    Ok(want)
}

fn check_no_garbage(run: &mut Run) -> Option<(String, String)> {
    let dir = run.db.dir.clone().unwrap();
    let got: BTreeSet<String> = list_files(&dir).into_iter().map(|(n, _)| n).collect();
    let want = match expected_files(&dir) {
        Ok(w) => w,
        Err(e) => return Some(("files:catalogue-unreadable".into(), e)),
    };
    if got != want {
        let extra: Vec<_> = got.difference(&want).cloned().collect();
        let missing: Vec<_> = want.difference(&got).cloned().collect();
        let kind = |n: &String| {
            if n.starts_with("wal/") && n.ends_with(".wal") {
                "wal"
            } else if n.contains("INCOMPLETE") {
                "temp"
            } else if n.ends_with(".part") {
                "part"
            } else {
                "other"
            }
        };
        let ek: BTreeSet<_> = extra.iter().map(kind).collect();
        let mk: BTreeSet<_> = missing.iter().map(kind).collect();
        return Some((
            format!("files:extra={:?}:missing={:?}", ek, mk),
            format!(
                "after a completed flush the directory has extra files {:?} and lacks {:?}",
                extra, missing
            ),
        ));
    }
    let ws = run.db.call(|db, _| db.verif_inner().verif_wal_size());
    match ws {
        Outcome::Ok(0) => None,
        Outcome::Ok(n) => Some((
            "wal_size:nonzero".into(),
            format!("accounted log size is {} after a completed flush", n),
        )),
        other => Some((format!("wal_size:{}", if matches!(other, Outcome::Hang) { "hang" } else { "caller-panic" }), other.describe())),
    }
}

fn settle(run: &mut Run) -> Outcome<()> {
    run.db.settle()
}

fn state_key(run: &Run) -> u64 {
    let files = run.db.dir.as_ref().map(|d| list_files(d)).unwrap_or_default();
    let s = serde_json::to_vec(&(&run.refdb, &files, &run.db.opts)).unwrap();
    hash64(&s)
}

pub struct HistOutcome {
    pub violation: Option<Violation>,
    pub transitions: u64,
    pub states: Vec<u64>,
    pub compactions_possible: bool,
}

/// Execute one history. `check_from`: evaluate the oracle after step k only for k >= check_from
/// (the prefix oracles are evaluated by the history that is the canonical extension of the prefix).
pub fn run_history(case: &HistCase, check_from: usize) -> HistOutcome {
    let flavor = Flavor::parse(&case.flavor);
    let _ = take_panics();
    let (db, r) = Db::open(&case.opts, None);
    let mut run = Run {
        db,
        refdb: RefDb::default(),
        transitions: 0,
    };
    let mut states = vec![];
    let mk = |sig: String, what: String, step: usize, case: &HistCase| {
        let mut c = case.clone();
        c.ops.truncate(step + 1);
        Violation {
            sig,
            what,
            weight: (step as u64 + 1) * 10,
            case: serde_json::to_value(&c).unwrap(),
        }
    };
    let mut violation = None;
    if !matches!(r, Outcome::Ok(())) {
        violation = Some(mk(
            format!("open:fresh:{}", if matches!(r, Outcome::Hang) { "hang" } else { "caller-panic" }),
            format!("opening a fresh database: {}", r.describe()),
            0,
            case,
        ));
    }
    let background = case.opts.max_wal_files < 1000 || case.opts.max_wal_size_bytes < 1_000_000;
    if violation.is_none() {
        for (k, op) in case.ops.iter().enumerate() {
            run.transitions += 1;
            let r: Outcome<()> = match op {
                Op::Ingest(b) => {
                    let batch = &case.batches[*b];
                    let r = run.db.ingest_batch(batch, case.path);
                    run.refdb.apply(batch);
                    if background && matches!(r, Outcome::Ok(())) {
                        // observe only quiescent states here; queries racing with a flush are C10's subject
                        settle(&mut run)
                    } else {
                        r
                    }
                }
                Op::Flush => run.db.flush(),
                Op::Evict => match run.db.evict() {
                    Outcome::Ok(_) => Outcome::Ok(()),
                    Outcome::Panic(m) => Outcome::Panic(m),
                    Outcome::Hang => Outcome::Hang,
                },
                Op::Restart => {
                    if background {
                        // a clean shutdown is not allowed to race with a flush in progress
                        let _ = settle_quiet(&mut run);
                    }
                    run.db.restart()
                }
                Op::Settle => settle(&mut run),
            };
            let panics = take_panics();
            if !matches!(r, Outcome::Ok(())) {
                let site = panics.first().map(panic_site).unwrap_or_default();
                violation = Some(mk(
                    format!(
                        "op:{}:{}:{}",
                        op_kind(op),
                        match r {
                            Outcome::Hang => "hang",
                            _ => "caller-panic",
                        },
                        site
                    ),
                    format!(
                        "step {} ({:?}) {}; database panics: {:?}",
                        k,
                        op,
                        r.describe(),
                        panics.iter().map(|p| format!("{} {}", panic_site(p), p.message)).collect::<Vec<_>>()
                    ),
                    k,
                    case,
                ));
                break;
            }
            states.push(state_key(&run));
            if k + 1 < check_from {
                continue;
            }
            let last = k + 1 == case.ops.len();
            let mut bad: Option<(String, String)> = None;
            if flavor == Flavor::C18 {
                if matches!(op, Op::Flush | Op::Settle) {
                    bad = check_no_garbage(&mut run);
                }
                if bad.is_none() && last {
                    bad = check_content(&mut run, false);
                }
            } else {
                bad = check_content(&mut run, last && flavor == Flavor::C07);
                if bad.is_none() && matches!(flavor, Flavor::C08 | Flavor::C13) {
                    bad = check_catalogue(&mut run);
                }
            }
            let panics = take_panics();
            if let Some((sig, what)) = bad {
                let site = panics.first().map(panic_site).unwrap_or_default();
                violation = Some(mk(
                    format!("after:{}:{}:{}", op_kind(op), sig, site),
                    format!(
                        "after step {} ({:?}): {}; database panics: {:?}",
                        k,
                        op,
                        what,
                        panics.iter().map(|p| format!("{} {}", panic_site(p), p.message)).collect::<Vec<_>>()
                    ),
                    k,
                    case,
                ));
                break;
            }
        }
    }
    let transitions = run.transitions;
    run.db.destroy();
    HistOutcome {
        violation,
        transitions,
        states,
        compactions_possible: true,
    }
}

fn settle_quiet(run: &mut Run) -> Outcome<()> {
    settle(run)
}

fn nth_history(alphabet: &[Op], depth: usize, mut idx: u64) -> Vec<Op> {
    let a = alphabet.len() as u64;
    let mut v = vec![0usize; depth];
    for k in (0..depth).rev() {
        v[k] = (idx % a) as usize;
        idx /= a;
    }
    v.into_iter().map(|i| alphabet[i].clone()).collect()
}

/// first k such that ops[k..] are all the first letter of the alphabet: prefix oracles for steps
/// >= that index are this history's responsibility.
fn check_from(alphabet: &[Op], ops: &[Op]) -> usize {
    let mut k = ops.len();
    while k > 0 && ops[k - 1] == alphabet[0] {
        k -= 1;
    }
    // steps k..len are all alphabet[0]; the prefix ops[..k] (k>=1) is checked here as well
    k.max(1)
}

impl Engine for HistEngine {
    fn property(&self) -> &'static str {
        self.flavor.name()
    }

    fn describe(&self, tier: Tier) -> Describe {
        let plans = plan(self.flavor, tier);
        let bounds: Vec<Value> = plans
            .iter()
            .map(|p| {
                json!({
                    "alphabet": p.alphabet.iter().map(|o| format!("{:?}", o)).collect::<Vec<_>>(),
                    "configurations": p.opts.iter().map(|(o, d)| json!({"depth": d, "options": o})).collect::<Vec<_>>(),
                    "batch_shapes": p.batches.len(),
                    "histories": p.opts.iter().map(|(_, d)| (p.alphabet.len() as u64).pow(*d as u32)).sum::<u64>(),
                })
            })
            .collect();
        let (rule, assumptions) = match self.flavor {
            Flavor::C07 => (
                "every sequence of exactly `depth` operations over {ingest(b) for 6 batch shapes, force_flush, evict_cache, restart} x every configuration (partition_combine_factor x max_partition_size_bytes), executed on a fresh on-disk database; after every prefix the content (SELECT *, explicit column list; at the end also every single column, COUNT(c), COUNT(1)) must equal the reference rows; non-trivial = history contains at least one ingest and one maintenance step; distinct by (configuration, operation sequence)",
                vec!["values outside the 6 batch shapes and histories longer than the depth are not covered", "type coercion of mixed columns accepted as documented"],
            ),
            Flavor::C08 => (
                "every sequence of exactly `depth` operations over {ingest into t, into u, into t+u, force_flush, restart} x {io_threads 1,4} x {factor 4,0}, plus background-flush histories (max_wal_files=1 / max_wal_size_bytes=1) over {ingest x3, settle, restart}; after every prefix SELECT * per table, _meta_tables, _meta_columns_<t>, search_column_names must equal the reference; non-trivial = contains ingest and restart",
                vec!["clean shutdown = drop(LocustDB); a restart in a background-flush configuration waits for the directory to go quiet first"],
            ),
            Flavor::C13 => (
                "every sequence of exactly `depth` operations over {ingest of 6 column subsets of {a,A,b,e-acute,70-byte name,'0','_a','zz'} into tables t,u, force_flush, restart} x {factor 0,4} x {max_partition_size_bytes default,1}; after every prefix SELECT * has exactly the union of names each once with NULL where a batch lacked the column, _meta_columns_<t> / _meta_tables / search_column_names list each name once; non-trivial = at least two different column sets ingested",
                vec!["column names containing quote characters are outside the alphabet"],
            ),
            Flavor::C18 => (
                "every sequence of exactly `depth` operations over {ingest t, ingest u, force_flush, restart} x {factor 0,1,4} x {max_partition_size_bytes default,1} x {(io_threads,compaction threads) (1,1),(4,2)}, plus histories with max_wal_size_bytes=1 over {ingest, settle}; after every force_flush / settle: recursive listing of db_path == {meta} + files named by the decoded on-disk catalogue, accounted log size == 0; non-trivial = contains ingest followed by flush",
                vec!["expected file set computed from the on-disk catalogue decoded with MetaStore::deserialize"],
            ),
        };
        Describe {
            level: "model_checking",
            rule: rule.to_string(),
            assumptions: assumptions.into_iter().map(|s| s.to_string()).collect(),
            bounds: json!(bounds),
            states_meaning: "distinct (reference content, files on disk with sizes, configuration) reached after a step",
        }
    }

    fn run_shard(&self, tier: Tier, shard: usize, nshards: usize, out: &mut ShardResult) {
        if self.flavor == Flavor::C08 {
            // ingestion acknowledged at every sync point of a concurrent flush, then clean restart
            crate::gate::run_restart_scenarios("C08", tier, shard, nshards, out);
            crate::common::install_flush_counter();
        }
        let mut global_idx: u64 = 0;
        for p in plan(self.flavor, tier) {
            for (opts, depth) in &p.opts {
                let depth = *depth;
                let total = (p.alphabet.len() as u64).pow(depth as u32);
                for idx in 0..total {
                    global_idx += 1;
                    if (global_idx as usize) % nshards != shard {
                        continue;
                    }
                    let ops = nth_history(&p.alphabet, depth, idx);
                    let cf = check_from(&p.alphabet, &ops);
                    let case = HistCase {
                        flavor: self.flavor.name().to_string(),
                        opts: opts.clone(),
                        batches: p.batches.clone(),
                        path: IngestPath::Wire,
                        ops: ops.clone(),
                    };
                    let t0 = std::time::Instant::now();
                    let mut o = run_history(&case, cf);
                    if let Some(v) = &o.violation {
                        if v.sig.contains("hang") {
                            // a stall of the machine must not look like a hang of the database:
                            // the same history has to hang again with three times the deadline
                            std::env::set_var("LVMC_DEADLINE_MS", "30000");
                            let again = run_history(&case, cf);
                            std::env::remove_var("LVMC_DEADLINE_MS");
                            if again.violation.as_ref().map(|a| &a.sig) != Some(&v.sig) {
                                out.count("transient_stalls_discarded", 1);
                                o = again;
                            }
                        }
                    }
                    if std::env::var("LVMC_TRACE").is_ok() && t0.elapsed().as_millis() > 200 {
                        eprintln!("[slow] {:?} {:?} took {:?}", opts, ops, t0.elapsed());
                    }
                    out.evaluations += 1;
                    out.transitions += o.transitions;
                    out.states.extend(o.states.iter().cloned());
                    let has_ingest = ops.iter().any(|o| matches!(o, Op::Ingest(_)));
                    let has_maint = ops.iter().any(|o| !matches!(o, Op::Ingest(_)));
                    if has_ingest && has_maint {
                        out.nontrivial.insert(hash64(&serde_json::to_vec(&(&opts, &ops)).unwrap()));
                    }
                    match o.violation {
                        Some(v) => {
                            if std::env::var("LVMC_TRACE").is_ok() {
                                eprintln!("[trace] {:?} -> {} :: {}", ops, v.sig, v.what);
                            }
                            out.outcome(&format!("violation:{}", v.sig));
                            out.violation(v);
                        }
                        None => out.outcome("ok"),
                    }
                    if out.samples.len() < 2 && has_ingest && has_maint {
                        out.sample(json!({"configuration": opts, "history": ops.iter().map(|o| format!("{:?}", o)).collect::<Vec<_>>()}));
                    }
                }
            }
        }
    }

    fn replay(&self, case: &Value) -> Option<Violation> {
        if case.get("schedule").is_some() {
            return crate::gate::replay_gate_case(self.flavor.name(), case);
        }
        let case: HistCase = serde_json::from_value(case.clone()).expect("hist case");
        let n = case.ops.len();
        run_history(&case, n).violation
    }
}

#[allow(dead_code)]
fn _unused(_: BTreeMap<u8, u8>) {}

/// Debug helper: build a case from a compact description "cfg=<i>;ops=i0,i2,f,e,r,s"
pub fn adhoc_case(flavor: Flavor, tier: Tier, desc: &str) -> HistCase {
    let mut cfg = 0usize;
    let mut plan_idx = 0usize;
    let mut ops_s = "";
    for part in desc.split(';') {
        if let Some(v) = part.strip_prefix("cfg=") {
            cfg = v.parse().unwrap();
        } else if let Some(v) = part.strip_prefix("plan=") {
            plan_idx = v.parse().unwrap();
        } else if let Some(v) = part.strip_prefix("ops=") {
            ops_s = v;
        }
    }
    let plans = plan(flavor, tier);
    let p = &plans[plan_idx];
    let ops = ops_s
        .split(',')
        .filter(|s| !s.is_empty())
        .map(|t| match t {
            "f" => Op::Flush,
            "e" => Op::Evict,
            "r" => Op::Restart,
            "s" => Op::Settle,
            t if t.starts_with('i') => Op::Ingest(t[1..].parse().unwrap()),
            _ => panic!("op {}", t),
        })
        .collect();
    HistCase {
        flavor: flavor.name().to_string(),
        opts: p.opts[cfg].0.clone(),
        batches: p.batches.clone(),
        path: IngestPath::Wire,
        ops,
    }
}
