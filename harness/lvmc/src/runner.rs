//! Sharded execution, violation confirmation, known findings, evidence.
use std::collections::{BTreeMap, BTreeSet};
use std::io::Write;
use std::path::{Path, PathBuf};
use std::process::{Command, Stdio};
use std::time::{Duration, Instant};

use serde::{Deserialize, Serialize};
use serde_json::{json, Value};

#[derive(Clone, Copy, Debug, PartialEq, Eq, Serialize, Deserialize)]
pub enum Tier {
    Quick,
    Thorough,
}

impl Tier {
    pub fn parse(s: &str) -> Tier {
        match s {
            "quick" => Tier::Quick,
            "thorough" => Tier::Thorough,
            _ => panic!("tier must be quick|thorough"),
        }
    }
    pub fn name(&self) -> &'static str {
        match self {
            Tier::Quick => "quick",
            Tier::Thorough => "thorough",
        }
    }
}

#[derive(Clone, Debug, Serialize, Deserialize)]
pub struct Violation {
    /// identifies the specific failing thing (not the property)
    pub sig: String,
    /// human readable description
    pub what: String,
    /// size measure used to keep the smallest case per signature
    pub weight: u64,
    /// replayable case (engine specific)
    pub case: Value,
}

#[derive(Clone, Debug, Default, Serialize, Deserialize)]
pub struct ShardResult {
    /// cases executed (histories / inputs / schedules / crash states)
    pub evaluations: u64,
    /// implementation steps executed (operations, queries)
    pub transitions: u64,
    /// hashes of canonical states / cases seen (distinct count is reported)
    pub states: BTreeSet<u64>,
    /// hashes of distinct non-trivial cases
    pub nontrivial: BTreeSet<u64>,
    /// histogram of observed outcome classes
    pub outcomes: BTreeMap<String, u64>,
    pub violations: Vec<Violation>,
    pub samples: Vec<Value>,
    pub caps_hit: Vec<String>,
    /// free-form counters
    pub counters: BTreeMap<String, u64>,
}

impl ShardResult {
    pub fn outcome(&mut self, class: &str) {
        *self.outcomes.entry(class.to_string()).or_insert(0) += 1;
    }
    pub fn count(&mut self, k: &str, n: u64) {
        *self.counters.entry(k.to_string()).or_insert(0) += n;
    }
    pub fn sample(&mut self, v: Value) {
        if self.samples.len() < 4 {
            self.samples.push(v);
        }
    }
    pub fn violation(&mut self, v: Violation) {
        // keep the lightest case per signature, at most 50 signatures
        if let Some(old) = self.violations.iter_mut().find(|o| o.sig == v.sig) {
            if v.weight < old.weight {
                *old = v;
            }
        } else if self.violations.len() < 3000 {
            self.violations.push(v);
        }
    }
    pub fn merge(&mut self, o: ShardResult) {
        self.evaluations += o.evaluations;
        self.transitions += o.transitions;
        self.states.extend(o.states);
        self.nontrivial.extend(o.nontrivial);
        for (k, v) in o.outcomes {
            *self.outcomes.entry(k).or_insert(0) += v;
        }
        for v in o.violations {
            self.violation(v);
        }
        for s in o.samples {
            self.sample(s);
        }
        for c in o.caps_hit {
            if !self.caps_hit.contains(&c) {
                self.caps_hit.push(c);
            }
        }
        for (k, v) in o.counters {
            *self.counters.entry(k).or_insert(0) += v;
        }
    }
}

/// Static description of a check (written into the evidence file).
pub struct Describe {
    pub level: &'static str,
    pub rule: String,
    pub assumptions: Vec<String>,
    pub bounds: Value,
    pub states_meaning: &'static str,
}

pub trait Engine: Sync {
    fn property(&self) -> &'static str;
    fn describe(&self, tier: Tier) -> Describe;
    fn run_shard(&self, tier: Tier, shard: usize, nshards: usize, out: &mut ShardResult);
    /// Re-execute exactly one recorded case; return the violation it shows, if any.
    fn replay(&self, case: &Value) -> Option<Violation>;
}

pub fn verif_root() -> PathBuf {
    std::env::var("LVMC_VERIF_ROOT").map(PathBuf::from).unwrap_or_else(|_| PathBuf::from("/verif"))
}

#[derive(Clone, Debug)]
pub struct Finding {
    pub kind: String, // known | fixed
    pub property: String,
    pub sig: String,
    pub text: String,
}

pub fn load_findings() -> Vec<Finding> {
    let p = verif_root().join("KNOWN_FINDINGS.txt");
    let mut out = vec![];
    if let Ok(s) = std::fs::read_to_string(p) {
        for line in s.lines() {
            let line = line.trim();
            if line.is_empty() || line.starts_with('#') {
                continue;
            }
            let (kind, rest) = match line.split_once(':') {
                Some(x) => x,
                None => continue,
            };
            let kind = kind.trim().to_string();
            if kind != "known" && kind != "fixed" {
                continue;
            }
            let mut property = String::new();
            let mut sig = String::new();
            for tok in rest.split_whitespace() {
                if let Some(v) = tok.strip_prefix("property=") {
                    property = v.to_string();
                } else if let Some(v) = tok.strip_prefix("sig=") {
                    sig = v.to_string();
                }
            }
            out.push(Finding {
                kind,
                property,
                sig,
                text: rest.trim().to_string(),
            });
        }
    }
    out
}

/// The description of a finding without its property= / sig= tokens.
fn finding_text(f: &Finding) -> String {
    f.text.split_whitespace().filter(|t| !t.starts_with("property=") && !t.starts_with("sig=")).collect::<Vec<_>>().join(" ")
}

fn nshards() -> usize {
    std::env::var("LVMC_SHARDS")
        .ok()
        .and_then(|s| s.parse().ok())
        .unwrap_or_else(|| std::thread::available_parallelism().map(|n| n.get()).unwrap_or(8))
}

pub fn sig_file_name(prop: &str, sig: &str) -> String {
    format!("{}-{:016x}.json", prop, crate::common::hash64(sig.as_bytes()))
}

/// Parent side of a check: fan out, merge, confirm, report. Returns the process exit code.
pub fn run_check(engine: &dyn Engine, tier: Tier) -> i32 {
    let prop = engine.property();
    let start = Instant::now();
    let exe = std::env::current_exe().unwrap();
    let n = nshards();
    let tmp = std::env::temp_dir().join(format!("lvmc-run-{}-{}", prop, std::process::id()));
    let _ = std::fs::remove_dir_all(&tmp);
    std::fs::create_dir_all(&tmp).unwrap();
    let limit = Duration::from_secs(
        std::env::var("LVMC_SHARD_TIMEOUT_S")
            .ok()
            .and_then(|s| s.parse().ok())
            .unwrap_or(match tier {
                Tier::Quick => 600,
                Tier::Thorough => 7200,
            }),
    );
    let mut children = vec![];
    for i in 0..n {
        let out = tmp.join(format!("shard-{}.json", i));
        let log = std::fs::File::create(tmp.join(format!("shard-{}.log", i))).unwrap();
        let child = Command::new(&exe)
            .arg("shard")
            .arg(prop)
            .arg(tier.name())
            .arg(i.to_string())
            .arg(n.to_string())
            .arg(&out)
            .stdout(Stdio::null())
            .stderr(Stdio::from(log))
            .spawn()
            .expect("spawn shard");
        children.push((i, child, out));
    }
    let mut merged = ShardResult::default();
    let mut machinery_errors = vec![];
    for (i, mut child, out) in children {
        let status = loop {
            match child.try_wait() {
                Ok(Some(st)) => break Some(st),
                Ok(None) => {
                    if start.elapsed() > limit {
                        let _ = child.kill();
                        let _ = child.wait();
                        break None;
                    }
                    std::thread::sleep(Duration::from_millis(20));
                }
                Err(_) => break None,
            }
        };
        match status {
            Some(st) if st.success() => match std::fs::read(&out)
                .ok()
                .and_then(|d| serde_json::from_slice::<ShardResult>(&d).ok())
            {
                Some(r) => merged.merge(r),
                None => machinery_errors.push(format!("shard {} wrote no result", i)),
            },
            Some(st) => {
                let log = std::fs::read_to_string(tmp.join(format!("shard-{}.log", i))).unwrap_or_default();
                let tail: String = log.lines().rev().take(15).collect::<Vec<_>>().into_iter().rev().collect::<Vec<_>>().join("\n");
                machinery_errors.push(format!("shard {} exited with {:?}\n{}", i, st, tail));
            }
            None => machinery_errors.push(format!("shard {} exceeded the wall limit of {:?}", i, limit)),
        }
    }
    let _ = std::fs::remove_dir_all(&tmp);

    // Confirm each violation twice in fresh processes.
    let replays = verif_root().join("replays");
    std::fs::create_dir_all(&replays).unwrap();
    let findings = load_findings();
    let mut viols = merged.violations.clone();
    viols.sort_by(|a, b| a.weight.cmp(&b.weight).then(a.sig.cmp(&b.sig)));
    let mut exit = 0;
    let mut known_printed = BTreeSet::new();
    let mut new_violations = 0;
    let mut unconfirmed = 0;
    let mut transient_stalls: Vec<String> = vec![];
    // signatures are written without spaces in KNOWN_FINDINGS.txt
    let is_known = |sig: &str| {
        let s = sig.replace(' ', "_");
        findings.iter().find(|f| f.kind == "known" && f.property == prop && f.sig == s)
    };
    // known findings are reported without replay; every other signature must reproduce twice
    for v in &viols {
        if let Some(f) = is_known(&v.sig) {
            if known_printed.insert(v.sig.clone()) {
                println!("KNOWN-FINDING: property={} {}", prop, finding_text(f));
            }
        }
    }
    for v in viols.iter().filter(|v| is_known(&v.sig).is_none()).take(10) {
        let path = replays.join(sig_file_name(prop, &v.sig));
        let body = json!({"property": prop, "sig": v.sig, "what": v.what, "case": v.case});
        std::fs::write(&path, serde_json::to_vec_pretty(&body).unwrap()).unwrap();
        let mut sigs = vec![];
        for _ in 0..2 {
            let o = Command::new(&exe).arg("replay").arg(prop).arg(&path).output();
            match o {
                Ok(o) => {
                    let s = String::from_utf8_lossy(&o.stdout).to_string();
                    let sig = s.lines().find_map(|l| l.strip_prefix("REPLAY-SIG ")).map(|x| x.to_string());
                    sigs.push(sig);
                }
                Err(_) => sigs.push(None),
            }
        }
        if sigs.iter().all(|s| s.as_deref() == Some(v.sig.as_str())) {
            new_violations += 1;
            println!("VIOLATION property={} replay={}", prop, path.display());
            println!("  sig={}", v.sig);
            println!("  {}", v.what.chars().take(700).collect::<String>());
            exit = 1;
        } else if sigs.iter().all(|s| s.is_some()) && sigs[0] == sigs[1] && is_known(sigs[0].as_deref().unwrap()).is_some() {
            // replays as a known finding (the first run observed it through a different symptom)
            let f = is_known(sigs[0].as_deref().unwrap()).unwrap();
            if known_printed.insert(f.sig.clone()) {
                println!("KNOWN-FINDING: property={} {}", prop, finding_text(f));
            }
        } else if sigs.iter().all(|s| s.is_none()) && ["hang", "no-answer", "no-completion", "no-response", "nocomplete"].iter().any(|k| v.sig.contains(k)) {
            // a call missed its deadline once and completes on both replays (with the long deadline):
            // a stall of the machine, not a hang of the database - recorded, not reported
            transient_stalls.push(v.sig.clone());
            println!("note: deadline miss did not reproduce on replay, treated as a machine stall: {}", v.sig);
        } else {
            unconfirmed += 1;
            machinery_errors.push(format!(
                "violation sig={} did not reproduce identically on replay (got {:?}); case kept at {}",
                v.sig,
                sigs,
                path.display()
            ));
        }
    }
    let _ = unconfirmed;
    let other_unknown = viols.iter().filter(|v| is_known(&v.sig).is_none()).count().saturating_sub(10);
    if other_unknown > 0 {
        println!("({} further unlisted violation signatures not replayed)", other_unknown);
    }
    if !machinery_errors.is_empty() {
        for e in &machinery_errors {
            eprintln!("MACHINERY-ERROR: {}", e);
        }
        if exit == 0 {
            exit = 2;
        }
    }

    // Evidence
    let d = engine.describe(tier);
    let wall = start.elapsed().as_secs_f64();
    let exhaustive = merged.caps_hit.is_empty() && machinery_errors.is_empty();
    let seed: i64 = std::env::var("VERIF_SEED").ok().and_then(|s| s.parse().ok()).unwrap_or(0);
    let mut samples = merged.samples.clone();
    if samples.is_empty() {
        samples.push(json!("no case executed"));
    }
    let evidence = json!({
        "property_id": prop,
        "tier": tier.name(),
        "seed": seed,
        "level": d.level,
        "coverage": {
            "states": merged.states.len(),
            "states_meaning": d.states_meaning,
            "transitions": merged.transitions,
            "traces_validated_against_impl": merged.evaluations,
            "evaluations": merged.evaluations,
            "distinct_nontrivial": merged.nontrivial.len(),
            "rule": d.rule,
            "samples": samples,
            "exhaustive": exhaustive,
            "bounds": d.bounds,
            "caps_hit": merged.caps_hit,
            "distinct_outcomes": merged.outcomes,
            "counters": merged.counters,
            "shards": n,
            "known_findings_seen": known_printed.iter().collect::<Vec<_>>(),
            "machinery_errors": machinery_errors,
            "deadline_misses_not_reproduced": transient_stalls,
        },
        "assumptions": d.assumptions,
        "wall_s": wall,
        "violations": new_violations,
    });
    let evdir = verif_root().join("evidence");
    std::fs::create_dir_all(&evdir).unwrap();
    let mut f = std::fs::File::create(evdir.join(format!("{}.json", prop))).unwrap();
    f.write_all(&serde_json::to_vec_pretty(&evidence).unwrap()).unwrap();

    println!(
        "{} {}: cases={} steps={} distinct_states={} nontrivial={} outcomes={} violations={} known={} wall={:.1}s exhaustive={}",
        prop,
        tier.name(),
        merged.evaluations,
        merged.transitions,
        merged.states.len(),
        merged.nontrivial.len(),
        merged.outcomes.len(),
        new_violations,
        known_printed.len(),
        wall,
        exhaustive
    );
    exit
}

/// Pin this process to one CPU: on the verification machine thread creation is serialised
/// machine-wide and is about twice as fast without cross-CPU migration.
pub fn pin_to_cpu(k: usize) {
    if std::env::var("LVMC_NO_PIN").is_ok() {
        return;
    }
    unsafe {
        let ncpu = libc::sysconf(libc::_SC_NPROCESSORS_ONLN).max(1) as usize;
        let mut set: libc::cpu_set_t = std::mem::zeroed();
        libc::CPU_SET(k % ncpu, &mut set);
        libc::sched_setaffinity(0, std::mem::size_of::<libc::cpu_set_t>(), &set);
    }
}

/// Undo `pin_to_cpu` (after a call hung: its threads may spin).
pub fn unpin_cpu() {
    unsafe {
        let ncpu = libc::sysconf(libc::_SC_NPROCESSORS_ONLN).max(1) as usize;
        let mut set: libc::cpu_set_t = std::mem::zeroed();
        for k in 0..ncpu {
            libc::CPU_SET(k, &mut set);
        }
        libc::sched_setaffinity(0, std::mem::size_of::<libc::cpu_set_t>(), &set);
    }
}

pub fn run_shard_main(engine: &dyn Engine, tier: Tier, shard: usize, n: usize, out: &Path) {
    pin_to_cpu(shard);
    crate::common::install_panic_hook();
    crate::common::install_flush_counter();
    let mut r = ShardResult::default();
    engine.run_shard(tier, shard, n, &mut r);
    crate::common::cleanup_scratch();
    std::fs::write(out, serde_json::to_vec(&r).unwrap()).unwrap();
}

pub fn run_replay_main(engine: &dyn Engine, file: &Path) -> i32 {
    crate::common::install_panic_hook();
    crate::common::install_flush_counter();
    if std::env::var("LVMC_DEADLINE_MS").is_err() {
        std::env::set_var("LVMC_DEADLINE_MS", "30000");
    }
    let body: Value = serde_json::from_slice(&std::fs::read(file).expect("read case file")).expect("case json");
    let case = body.get("case").cloned().unwrap_or(body.clone());
    let r = engine.replay(&case);
    crate::common::cleanup_scratch();
    match r {
        Some(v) => {
            println!("REPLAY-SIG {}", v.sig);
            println!("{}", v.what);
            println!("VIOLATION property={} replay={}", engine.property(), file.display());
            1
        }
        None => {
            println!("REPLAY-OK no violation on this case");
            0
        }
    }
}
