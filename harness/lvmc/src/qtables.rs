//! Logical tables and physical layouts shared by the query engines (E-query).
use std::collections::BTreeMap;

use serde::{Deserialize, Serialize};

use crate::common::*;

#[derive(Clone, Debug, Serialize, Deserialize)]
pub struct LogicalTable {
    pub name: String,
    pub columns: Vec<String>,
    pub rows: Vec<BTreeMap<String, RVal>>,
}

impl LogicalTable {
    pub fn new(name: &str, cols: Vec<(&str, Vec<RVal>)>) -> LogicalTable {
        let n = cols[0].1.len();
        let mut rows = vec![BTreeMap::new(); n];
        for (c, vals) in &cols {
            assert_eq!(vals.len(), n, "column {}", c);
            for (i, v) in vals.iter().enumerate() {
                if !v.is_null() {
                    rows[i].insert(c.to_string(), v.clone());
                }
            }
        }
        LogicalTable {
            name: name.to_string(),
            columns: cols.iter().map(|(c, _)| c.to_string()).collect(),
            rows,
        }
    }

    pub fn ref_table(&self) -> RefTable {
        let mut db = RefDb::default();
        db.apply(&self.batch(0, self.rows.len(), false));
        let mut t = db.tables.remove(&self.name).unwrap_or_default();
        for c in &self.columns {
            t.columns.insert(c.clone());
        }
        t
    }

    /// Batch of rows [from, to). Columns that are entirely NULL in the range are left out when
    /// `omit_null_cols` (the partition then lacks the column) and sent as Empty otherwise.
    pub fn batch(&self, from: usize, to: usize, omit_null_cols: bool) -> Batch {
        let mut tb = TableBatch::new(&self.name, to - from);
        for c in &self.columns {
            let vals: Vec<RVal> = (from..to).map(|i| self.rows[i].get(c).cloned().unwrap_or(RVal::Null)).collect();
            if vals.iter().all(|v| v.is_null()) && omit_null_cols {
                continue;
            }
            tb = tb.col(c, vals);
        }
        Batch::one(tb)
    }
}

#[derive(Clone, Debug, Serialize, Deserialize, PartialEq, Eq, Hash)]
pub enum Post {
    Restart,
    Evict,
}

/// A physical realisation of a logical table.
#[derive(Clone, Debug, Serialize, Deserialize, PartialEq, Eq, Hash)]
pub struct Layout {
    pub name: String,
    /// sizes of the ingestion batches (must sum to the row count)
    pub batches: Vec<usize>,
    /// force_flush after batch i?
    pub flush_after: Vec<bool>,
    pub omit_null_cols: bool,
    pub opts: DbOpts,
    pub post: Vec<Post>,
}

impl Layout {
    pub fn single(name: &str, n: usize, on_disk: bool) -> Layout {
        Layout {
            name: name.to_string(),
            batches: vec![n],
            flush_after: vec![on_disk],
            omit_null_cols: false,
            opts: DbOpts {
                on_disk,
                ..DbOpts::default()
            },
            post: vec![],
        }
    }
}

/// Builds the database; Err(description) if any step does not complete.
pub fn build(table: &LogicalTable, layout: &Layout) -> Result<Db, String> {
    assert_eq!(layout.batches.iter().sum::<usize>(), table.rows.len(), "layout {}", layout.name);
    let (mut db, r) = Db::open(&layout.opts, None);
    if !matches!(r, Outcome::Ok(())) {
        return Err(format!("open: {}", r.describe()));
    }
    let mut from = 0;
    for (i, n) in layout.batches.iter().enumerate() {
        if *n > 0 {
            let b = table.batch(from, from + n, layout.omit_null_cols);
            let r = db.ingest_batch(&b, IngestPath::Wire);
            if !matches!(r, Outcome::Ok(())) {
                return Err(format!("ingest of rows {}..{}: {}", from, from + n, r.describe()));
            }
        }
        from += n;
        if layout.flush_after.get(i).copied().unwrap_or(false) && layout.opts.on_disk {
            let r = db.flush();
            if !matches!(r, Outcome::Ok(())) {
                return Err(format!("force_flush after batch {}: {}", i, r.describe()));
            }
        }
    }
    for p in &layout.post {
        let r = match p {
            Post::Restart => db.restart(),
            Post::Evict => match db.evict() {
                Outcome::Ok(_) => Outcome::Ok(()),
                Outcome::Panic(m) => Outcome::Panic(m),
                Outcome::Hang => Outcome::Hang,
            },
        };
        if !matches!(r, Outcome::Ok(())) {
            return Err(format!("{:?}: {}", p, r.describe()));
        }
    }
    Ok(db)
}

pub fn ints(xs: &[i64]) -> Vec<RVal> {
    xs.iter().map(|x| ri(*x)).collect()
}
pub fn floats(xs: &[f64]) -> Vec<RVal> {
    xs.iter().map(|x| rf(*x)).collect()
}
pub fn strs(xs: &[&str]) -> Vec<RVal> {
    xs.iter().map(|x| rs(x)).collect()
}
pub fn opt_ints(xs: &[Option<i64>]) -> Vec<RVal> {
    xs.iter().map(|x| x.map(ri).unwrap_or(RVal::Null)).collect()
}
pub fn opt_floats(xs: &[Option<f64>]) -> Vec<RVal> {
    xs.iter().map(|x| x.map(rf).unwrap_or(RVal::Null)).collect()
}
pub fn opt_strs(xs: &[Option<&str>]) -> Vec<RVal> {
    xs.iter().map(|x| x.map(rs).unwrap_or(RVal::Null)).collect()
}
