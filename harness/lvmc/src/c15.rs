//! C15: each column is found in the file it was written to, under any name.
use std::collections::{BTreeMap, BTreeSet};

use locustdb::verif::{partition_filename, sanitize_table_name, subpartition, ColumnBuffer as Builder, PartitionMetadata};
use serde::{Deserialize, Serialize};
use serde_json::{json, Value};

use crate::c01::panic_file;
use crate::common::*;
use crate::hist::qident;
use crate::runner::*;

pub struct C15;

fn col_pool() -> Vec<String> {
    vec![
        "a".into(),
        "A".into(),
        "b".into(),
        "é".into(),
        "n".repeat(70),
        "ab".into(),
        "abc".into(),
        "0first".into(),
        "zz".into(),
        "_u".into(),
    ]
}

fn probes() -> Vec<String> {
    vec!["+".into(), "B".into(), "mm".into(), "~~".into(), "aa".into(), "abcd".into()]
}

fn table_pool() -> Vec<String> {
    vec![
        "t".into(),
        "T".into(),
        "a.b".into(),
        "a/b".into(),
        "a_b".into(),
        "..".into(),
        "../x".into(),
        ".hidden".into(),
        "-dash".into(),
        "x".repeat(300),
        format!("{}y", "x".repeat(299)),
        "é".into(),
        "tables".into(),
        "a b".into(),
    ]
}

fn col_value(name: &str, row: usize) -> i64 {
    (hash64(name.as_bytes()) % 1_000_000) as i64 * 100 + row as i64
}

#[derive(Clone, Debug, Serialize, Deserialize)]
pub enum C15Case {
    Columns(Vec<String>, u64),
    Tables(String, String),
    Routing(Vec<String>, u64),
    Sanitize,
}

fn check_columns(names: &[String], mps: u64, tr: &mut u64) -> Option<(String, String)> {
    let rows = 3usize;
    let mut tb = TableBatch::new("t", rows).col("id", (0..rows).map(|i| ri(i as i64)).collect());
    for n in names {
        tb = tb.col(n, (0..rows).map(|r| ri(col_value(n, r))).collect());
    }
    let batch = Batch::one(tb);
    let opts = DbOpts {
        max_partition_size_bytes: mps,
        ..DbOpts::default()
    };
    let (mut db, r) = Db::open(&opts, None);
    let desc = format!("columns {:?} with max_partition_size_bytes={}", names.iter().map(|n| if n.len() > 20 { format!("{}..({}B)", &n[..4], n.len()) } else { n.clone() }).collect::<Vec<_>>(), mps);
    let fin = |db: Db, r: Option<(String, String)>| {
        db.destroy();
        r
    };
    if !matches!(r, Outcome::Ok(())) {
        return fin(db, Some(("columns:open".into(), r.describe())));
    }
    for (step, r) in [("ingest", db.ingest_batch(&batch, IngestPath::Wire)), ("flush", db.flush()), ("restart", db.restart())] {
        *tr += 1;
        if !matches!(r, Outcome::Ok(())) {
            let panics = take_panics();
            return fin(
                db,
                Some((
                    format!("columns:{}:{}:{}", step, if matches!(r, Outcome::Hang) { "hang" } else { "caller-panic" }, panics.first().map(panic_file).unwrap_or_default()),
                    format!("{}: {} {}; panics {:?}", desc, step, r.describe(), panics.iter().map(|p| &p.message).collect::<Vec<_>>()),
                )),
            );
        }
    }
    // freshly reopened: every pool name and every probe, one query each (cold reads)
    let mut asks: Vec<String> = col_pool();
    asks.extend(probes());
    // rotate the order so that the first cold read hits different files
    let k = (hash64(desc.as_bytes()) % asks.len() as u64) as usize;
    asks.rotate_left(k);
    for q in asks {
        *tr += 1;
        let present = names.contains(&q);
        let res = db.query(&format!("SELECT id, {} FROM t", qident(&q)));
        let panics = take_panics();
        match res {
            Outcome::Ok(Ok(out)) => {
                if out.rows.len() != rows {
                    return fin(db, Some(("columns:rowcount".into(), format!("{}: SELECT {:?} returned {} rows", desc, q, out.rows.len()))));
                }
                for (r, row) in out.rows.iter().enumerate() {
                    let want = if present { ri(col_value(&q, r)) } else { RVal::Null };
                    if row.len() != 2 || row[0] != ri(r as i64) || row[1] != want {
                        let kind = if present { "present-column-wrong" } else { "absent-column-not-null" };
                        return fin(
                            db,
                            Some((
                                format!("columns:{}:mps={}", kind, if mps > 100_000 { "default".to_string() } else { mps.to_string() }),
                                format!("{}: column {:?} ({}) row {} reads {:?}, expected {:?}", desc, q, if present { "stored" } else { "never stored" }, r, row, want),
                            )),
                        );
                    }
                }
            }
            other => {
                let o = match &other {
                    Outcome::Ok(Err((k, m))) => format!("error {}: {}", k, m),
                    x => x.describe(),
                };
                let kind = match &other {
                    Outcome::Ok(Err((k, m))) => format!("error:{}:{}", k, crate::c03::norm_msg(m)),
                    Outcome::Hang => "hang".into(),
                    _ => "caller-panic".into(),
                };
                return fin(
                    db,
                    Some((
                        format!("columns:query-{}:{}", kind, panics.first().map(panic_file).unwrap_or_default()),
                        format!("{}: reading column {:?} after reopen: {}; panics {:?}", desc, q, o, panics.iter().map(|p| &p.message).collect::<Vec<_>>()),
                    )),
                );
            }
        }
    }
    fin(db, None)
}

fn queryable(name: &str) -> bool {
    !name.is_empty() && !name.contains('"')
}

fn check_tables(a: &str, b: &str, tr: &mut u64) -> Option<(String, String)> {
    let mk = |t: &str, base: i64| Batch::one(TableBatch::new(t, 2).col("v", vec![ri(base), ri(base + 1)]).col("w", vec![rs(&format!("{}-0", base)), rs(&format!("{}-1", base))]));
    let opts = DbOpts::default();
    let (mut db, r) = Db::open(&opts, None);
    let short = |s: &str| if s.len() > 20 { format!("{}..({}B)", &s[..6], s.len()) } else { s.to_string() };
    let desc = format!("tables {:?} and {:?}", short(a), short(b));
    let fin = |db: Db, r: Option<(String, String)>| {
        db.destroy();
        r
    };
    if !matches!(r, Outcome::Ok(())) {
        return fin(db, Some(("tables:open".into(), r.describe())));
    }
    let steps: Vec<(&str, Outcome<()>)> = vec![("ingest-a", db.ingest_batch(&mk(a, 100), IngestPath::Wire))];
    let mut all = steps;
    if a != b {
        all.push(("ingest-b", db.ingest_batch(&mk(b, 200), IngestPath::Wire)));
    }
    all.push(("flush", db.flush()));
    for (step, r) in all {
        *tr += 1;
        if !matches!(r, Outcome::Ok(())) {
            let panics = take_panics();
            return fin(
                db,
                Some((
                    format!("tables:{}:{}:{}", step, if matches!(r, Outcome::Hang) { "hang" } else { "caller-panic" }, panics.first().map(panic_file).unwrap_or_default()),
                    format!("{}: {} {}; panics {:?}", desc, step, r.describe(), panics.iter().map(|p| &p.message).collect::<Vec<_>>()),
                )),
            );
        }
    }
    // file placement
    let dir = db.dir.clone().unwrap();
    let canon_root = std::fs::canonicalize(&dir).unwrap();
    let tables_root = canon_root.join("tables");
    let files = list_files(&dir);
    let mut by_table: BTreeMap<&str, BTreeSet<String>> = BTreeMap::new();
    for t in [a, b] {
        let d = tables_root.join(sanitize_table_name(t));
        let mut set = BTreeSet::new();
        for (f, _) in &files {
            let p = std::fs::canonicalize(dir.join(f)).unwrap();
            if !p.starts_with(&canon_root) {
                return fin(db, Some(("tables:file-outside-db".into(), format!("{}: file {:?} is outside the database directory", desc, p))));
            }
            if p.parent() == Some(d.as_path()) {
                set.insert(f.clone());
            }
        }
        // the directory itself must stay inside tables/
        let dn = d.components().count();
        if !d.starts_with(&tables_root) || dn != tables_root.components().count() + 1 {
            return fin(db, Some(("tables:directory-escapes".into(), format!("{}: table {:?} maps to directory {:?}", desc, short(t), d))));
        }
        if set.is_empty() {
            return fin(db, Some(("tables:no-files".into(), format!("{}: no partition file found for table {:?} under {:?}; files {:?}", desc, short(t), d, files))));
        }
        by_table.insert(t, set);
    }
    if a != b && !by_table[a].is_disjoint(&by_table[b]) {
        return fin(db, Some(("tables:shared-files".into(), format!("{}: share files {:?}", desc, by_table[a].intersection(&by_table[b]).collect::<Vec<_>>()))));
    }
    // content after reopen
    *tr += 1;
    let r = db.restart();
    if !matches!(r, Outcome::Ok(())) {
        let panics = take_panics();
        return fin(db, Some((format!("tables:restart:{}", panics.first().map(panic_file).unwrap_or_default()), format!("{}: restart {}; panics {:?}", desc, r.describe(), panics.iter().map(|p| &p.message).collect::<Vec<_>>()))));
    }
    for (t, base) in [(a, 100i64), (b, 200)] {
        if a == b && base == 200 {
            continue;
        }
        if !queryable(t) {
            continue;
        }
        *tr += 1;
        let res = db.query(&format!("SELECT v, w FROM {}", qident(t)));
        let panics = take_panics();
        match res {
            Outcome::Ok(Ok(out)) => {
                let want = vec![vec![ri(base), rs(&format!("{}-0", base))], vec![ri(base + 1), rs(&format!("{}-1", base))]];
                if out.rows != want {
                    return fin(db, Some(("tables:content".into(), format!("{}: table {:?} reads {:?} after reopen, expected {:?}", desc, short(t), out.rows, want))));
                }
            }
            Outcome::Ok(Err((k, m))) => {
                // a name the SQL layer cannot express is not this property's business
                if k == "ParseError" || k == "Syntax" {
                    continue;
                }
                return fin(db, Some((format!("tables:query-error:{}:{}", k, crate::c03::norm_msg(&m)), format!("{}: reading table {:?} after reopen failed: {}: {}; panics {:?}", desc, short(t), k, m, panics.iter().map(|p| &p.message).collect::<Vec<_>>()))));
            }
            other => return fin(db, Some(("tables:query-no-answer".into(), format!("{}: {}", desc, other.describe())))),
        }
    }
    fin(db, None)
}

/// Direct enumeration of the splitting + routing functions.
fn check_routing(names: &[String], mps: u64) -> Option<(String, String)> {
    let names2 = names.to_vec();
    let r = std::panic::catch_unwind(move || {
        let cols: Vec<_> = names2
            .iter()
            .map(|n| {
                let mut b = Builder::default();
                b.push_ints((0..3).map(|r| col_value(n, r)), None);
                b.finalize(n)
            })
            .collect();
        let opts = DbOpts { max_partition_size_bytes: mps, ..DbOpts::default() }.to_options(None);
        let (metadata, parts) = subpartition(&opts, cols);
        let mut by_last = BTreeMap::new();
        for (i, m) in metadata.iter().enumerate() {
            by_last.insert(m.last_column.clone(), i);
        }
        let pm = PartitionMetadata {
            id: 0,
            tablename: "t".into(),
            len: 3,
            offset: 0,
            subpartitions: metadata.clone(),
            subpartitions_by_last_column: by_last,
        };
        let mut problems = vec![];
        let keys: Vec<String> = metadata.iter().map(|m| m.subpartition_key.clone()).collect();
        let files: BTreeSet<String> = keys.iter().map(|k| partition_filename(0, k)).collect();
        if files.len() != keys.len() {
            problems.push(("routing:duplicate-file".to_string(), format!("sub-partition keys {:?} map to {} file names", keys, files.len())));
        }
        for k in &keys {
            if k.contains('/') || k.contains("..") || k.is_empty() {
                problems.push(("routing:unsafe-key".to_string(), format!("sub-partition key {:?}", k)));
            }
        }
        for (i, part) in parts.iter().enumerate() {
            for c in part {
                let routed = pm.subpartition_key(c.name());
                if routed.as_deref() != Some(keys[i].as_str()) {
                    problems.push((
                        "routing:column-routed-to-other-file".to_string(),
                        format!("column {:?} was written to file key {:?} but a lookup routes to {:?} (keys {:?}, last columns {:?})", c.name(), keys[i], routed, keys, metadata.iter().map(|m| m.last_column.clone()).collect::<Vec<_>>()),
                    ));
                }
            }
        }
        let total: usize = parts.iter().map(|p| p.len()).sum();
        if total != names2.len() {
            problems.push(("routing:column-lost".to_string(), format!("{} columns in, {} columns in sub-partitions", names2.len(), total)));
        }
        problems
    });
    let panics = take_panics();
    match r {
        Err(_) => Some((format!("routing:panic:{}", panics.first().map(panic_file).unwrap_or_default()), format!("{:?} mps={}: {:?}", names, mps, panics.first().map(|p| &p.message)))),
        Ok(p) => p.into_iter().next().map(|(s, w)| (s, format!("columns {:?}, max_partition_size_bytes={}: {}", names, mps, w))),
    }
}

fn check_sanitize() -> Option<(String, String)> {
    let mut pool = table_pool();
    pool.extend(["", ".", "a", "A", "a-", "-a", "a.", ".a", "ä", "a\u{0}", "a\\b", "con", "x/../../y", " ", "t ", "T.", "é2"].iter().map(|s| s.to_string()));
    let mut seen: BTreeMap<String, String> = BTreeMap::new();
    for n in &pool {
        let s = sanitize_table_name(n);
        if s.contains('/') || s == "." || s == ".." || s.contains('\u{0}') || s.len() > 255 {
            return Some(("sanitize:unsafe".into(), format!("table name {:?} maps to directory name {:?}", n, s)));
        }
        if let Some(prev) = seen.get(&s) {
            if prev != n {
                return Some(("sanitize:collision".into(), format!("table names {:?} and {:?} both map to directory {:?}", prev, n, s)));
            }
        }
        seen.insert(s, n.clone());
    }
    None
}

fn subsets(pool: &[String], max: usize) -> Vec<Vec<String>> {
    let n = pool.len();
    let mut out = vec![];
    for mask in 1u32..(1 << n) {
        if (mask.count_ones() as usize) <= max {
            out.push((0..n).filter(|i| mask & (1 << i) != 0).map(|i| pool[i].clone()).collect());
        }
    }
    out
}

impl Engine for C15 {
    fn property(&self) -> &'static str {
        "C15"
    }

    fn describe(&self, tier: Tier) -> Describe {
        Describe {
            level: "model_checking",
            rule: format!("(1) every subset of size 1..{} of a 10-name column pool (a, A, b, e-acute, a 70-byte name, ab, abc, 0first, zz, _u) x max_partition_size_bytes {{1, 64, 4096, default}}: ingested, flushed, database reopened, then every pool name and 6 probe names (sorting before all, between files, after all, prefix / extension of stored names) is read cold - a stored column must read as written, any other name as NULL; (2) direct enumeration of the split + routing functions for every subset of size 1..5: file keys distinct and file-system safe, every column routed to the file it was written to, no column lost; (3) every pair of a 14-name table pool (case pairs, dots, slashes, '..', '../x', hidden, leading dash, 300-byte names differing in the last byte, non-ASCII, 'tables') in one database: per-table file sets disjoint, inside db_path/tables after canonicalisation, content readable after reopen; (4) sanitised directory names pairwise distinct and safe over 31 names. Non-trivial: subsets with >= 2 names / pairs of distinct tables; distinct by case.", if tier == Tier::Quick { 3 } else { 4 }),
            assumptions: vec!["column and table names containing a double quote cannot be written in a query and are outside the pool".into()],
            bounds: json!({"column_pool": col_pool().iter().map(|n| n.len()).collect::<Vec<_>>(), "table_pool": table_pool().len(), "probes": probes()}),
            states_meaning: "distinct databases / function inputs examined",
        }
    }

    fn run_shard(&self, tier: Tier, shard: usize, nshards: usize, out: &mut ShardResult) {
        let mut idx = 0usize;
        let mut record = |out: &mut ShardResult, kind: &str, case: C15Case, bad: Option<(String, String)>, weight: u64, nontrivial: bool| {
            out.evaluations += 1;
            let h = hash64(format!("{:?}", case).as_bytes());
            out.states.insert(h);
            if nontrivial {
                out.nontrivial.insert(h);
            }
            match bad {
                None => out.outcome(&format!("{}-ok", kind)),
                Some((sig, what)) => {
                    if std::env::var("LVMC_TRACE").is_ok() {
                        eprintln!("[trace] {} :: {}", sig, what);
                    }
                    out.outcome(&format!("{}-violation", kind));
                    out.violation(Violation { sig: format!("C15:{}", sig), what, weight, case: serde_json::to_value(&case).unwrap() });
                }
            }
        };
        let pool = col_pool();
        for names in subsets(&pool, if tier == Tier::Quick { 3 } else { 4 }) {
            for mps in [1u64, 64, 4096, 8 * 1024 * 1024] {
                idx += 1;
                if idx % nshards != shard {
                    continue;
                }
                let mut tr = 0;
                let bad = check_columns(&names, mps, &mut tr);
                out.transitions += tr;
                if out.samples.len() < 2 && names.len() == 3 && mps == 64 {
                    out.sample(json!({"columns": names, "max_partition_size_bytes": mps}));
                }
                let n = names.len();
                record(out, "columns", C15Case::Columns(names.clone(), mps), bad, n as u64 * 10, n >= 2);
            }
        }
        for names in subsets(&pool, 5) {
            for mps in [1u64, 30, 64, 4096] {
                idx += 1;
                if idx % nshards != shard {
                    continue;
                }
                let bad = check_routing(&names, mps);
                out.transitions += 1;
                let n = names.len();
                record(out, "routing", C15Case::Routing(names.clone(), mps), bad, n as u64, n >= 2);
            }
        }
        let tp = table_pool();
        for i in 0..tp.len() {
            for j in i..tp.len() {
                idx += 1;
                if idx % nshards != shard {
                    continue;
                }
                let mut tr = 0;
                let bad = check_tables(&tp[i], &tp[j], &mut tr);
                out.transitions += tr;
                record(out, "tables", C15Case::Tables(tp[i].clone(), tp[j].clone()), bad, 20, i != j);
            }
        }
        if shard == 0 {
            let bad = check_sanitize();
            out.transitions += 1;
            record(out, "sanitize", C15Case::Sanitize, bad, 1, true);
        }
    }

    fn replay(&self, case: &Value) -> Option<Violation> {
        let c: C15Case = serde_json::from_value(case.clone()).ok()?;
        let mut tr = 0;
        let bad = match &c {
            C15Case::Columns(n, m) => check_columns(n, *m, &mut tr),
            C15Case::Tables(a, b) => check_tables(a, b, &mut tr),
            C15Case::Routing(n, m) => check_routing(n, *m),
            C15Case::Sanitize => check_sanitize(),
        };
        bad.map(|(sig, what)| Violation { sig: format!("C15:{}", sig), what, weight: 1, case: case.clone() })
    }
}
