#!/bin/bash
# Applies every seeded fault under /verif/seeded/<id>/patch.diff to /repo's working tree, runs the quick
# check of the property it breaks, expects a VIOLATION (exit 1), and reverts. Not a manifest command.
cd /verif
fail=0
for d in /verif/seeded/*/; do
    id=$(basename $d)
    prop=$(python3 -c "import json;print(json.load(open('$d/meta.json'))['property'])")
    if ! git -C /repo apply --check $d/patch.diff 2>/dev/null; then echo "$id: patch does not apply"; fail=1; continue; fi
    git -C /repo apply $d/patch.diff
    out=$(./check $prop quick 2>&1); code=$?
    git -C /repo checkout -- .
    if [ $code -eq 1 ] && echo "$out" | grep -q "^VIOLATION property=$prop"; then
        echo "$id ($prop): DETECTED  $(echo "$out" | grep -m1 'sig=')"
    else
        echo "$id ($prop): MISSED (exit $code)"; fail=1
    fi
done
# rebuild on the clean tree
(cd /verif/harness && cargo build >/dev/null 2>&1)
exit $fail
