#!/bin/bash
# Build the harness against /repo's current working tree (offline).
set -e
cd /verif/harness
cargo build 2>&1 | tail -3
# lock-level engine of C10 (second workspace, own target directory)
python3 /verif/harness-sched/prepare.py
cd /verif/harness-sched
cargo build 2>&1 | tail -3
