#!/bin/bash
# Build the harness against /repo's current working tree (offline).
set -e
cd /verif/harness
cargo build 2>&1 | tail -3
